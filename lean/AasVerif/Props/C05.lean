import AasVerif.Lemmas.HierTopo
import AasVerif.Lemmas.HierStack
import AasVerif.Lemmas.HierOut
import AasVerif.Lemmas.HierCtor
import AasVerif.Lemmas.HierPerm
import AasVerif.Lemmas.HierSer
import AasVerif.Lemmas.HierMethods
/-!
# C05 — The intermediate model resolves inheritance faithfully

Theorems about `Hier.translate` (model of the hierarchy passes of `intermediate.translate`)
for **every** class list `cs` (in declaration order) with

* `UniqueNames cs`   — no two classes share a name (decidable),
* `ParentsExist cs`  — every listed base class is declared (decidable),
* `Acyclic cs`       — a topological order exists; `acyclic_of_certificate` turns a concrete order
                       that passes the code's own `first_not_in_topological_order` check into it.

`parentsOf cs c` are the declared bases of `c`, `ParentRel (parentsOf cs) a c` is "`a` is a declared
base of `c`", `topo cs` the order computed by the model of `_topologically_sort`.
-/
namespace AasVerif.Props.C05
open AasVerif AasVerif.Hier

variable {cs : List ParsedClass}

/-- An accepted run returns exactly the named components, evaluated at the computed topological
order, for the classes in declaration order — and has passed the listed checks. -/
theorem accepted_output {o : Out} (h : translate cs = .ok o) :
    o = { topo := topo cs, classes := cs.map (classOut cs) } ∧ Accepted cs :=
  translate_ok h

/-- **Type order.** The sort never reports a cycle on an acyclic hierarchy, stays within the recursion
budget of the model, returns every class exactly once, parents before children. -/
theorem topo_perm_sorted (hu : UniqueNames cs) (hp : ParentsExist cs) (ha : Acyclic cs) :
    (topoState cs).cycle = none ∧ (topoState cs).outOfFuel = false
    ∧ (topo cs).Perm (names cs) ∧ TopoSorted (parentsOf cs) (topo cs) := by
  obtain ⟨h1, h2, h3⟩ := topoState_spec hu hp ha
  exact ⟨h1, h2, h3.perm, h3.sorted⟩

/-- **Ancestors** of the intermediate class are exactly the transitive closure of the declared bases. -/
theorem ancestors_exact (hu : UniqueNames cs) (hp : ParentsExist cs) (ha : Acyclic cs) (a c : Name) :
    a ∈ ancestorsOf cs (topo cs) c ↔ Relation.TransGen (ParentRel (parentsOf cs)) a c :=
  mem_ancestorsOf hu hp (topoState_spec hu hp ha).2.2

/-- … and list no class twice (after the `fix:` commit; `D(B, C), B(A), C(A)` gave `[A, A, B, C]`). -/
theorem ancestors_nodup (hu : UniqueNames cs) (c : Name) : (ancestorsOf cs (topo cs) c).Nodup :=
  nodup_ancestorsOf hu c

/-- **Descendants** are exactly the inverse relation … -/
theorem descendants_inverse (hu : UniqueNames cs) (hp : ParentsExist cs) (ha : Acyclic cs) (c d : Name) :
    d ∈ descendantsOf cs (topo cs) c ↔ c ∈ ancestorsOf cs (topo cs) d := by
  have ho := (topoState_spec hu hp ha).2.2
  rw [mem_descendantsOf hu hp ho, mem_ancestorsOf hu hp ho]

/-- … without repetition. -/
theorem descendants_nodup (c : Name) : (descendantsOf cs (topo cs) c).Nodup :=
  nodup_descendantsOf c

theorem descendants_exact (hu : UniqueNames cs) (hp : ParentsExist cs) (ha : Acyclic cs) (c d : Name) :
    d ∈ descendantsOf cs (topo cs) c ↔ Relation.TransGen (ParentRel (parentsOf cs)) c d :=
  mem_descendantsOf hu hp (topoState_spec hu hp ha).2.2

/-- Concrete descendants are the descendants that are concrete classes, in the same order. -/
theorem concreteDescendants_eq (c : Name) :
    concreteDescendantsOf cs (topo cs) c = (descendantsOf cs (topo cs) c).filter (isConcrete cs) := rfl

/-- No class is its own ancestor (so the `@require self not in ancestors/descendants` of the setters hold). -/
theorem not_own_ancestor (hu : UniqueNames cs) (hp : ParentsExist cs) (ha : Acyclic cs) (c : Name) :
    c ∉ ancestorsOf cs (topo cs) c := by
  intro h
  have ho := (topoState_spec hu hp ha).2.2
  have hnd := ho.nodup hu
  have := (ancestors_exact hu hp ha c c).mp h
  -- positions strictly grow along the parent relation
  have key : ∀ a b, Relation.TransGen (ParentRel (parentsOf cs)) a b → pos (topo cs) a < pos (topo cs) b := by
    intro a b hab
    induction hab with
    | single h1 => exact pos_parent_lt hnd ho.sorted (ho.mem.mpr (mem_names_of_parent h1)) h1
    | tail _ h2 ih =>
      have := pos_parent_lt hnd ho.sorted (ho.mem.mpr (mem_names_of_parent h2)) h2
      omega
  have := key c c this
  omega

/-! ## Stacking

The plan of DESIGN.md stated `stackedProps c = dedup (ancestors in topological order).flatMap own ++ own c`.
That equation is false of the code (and of the faithful model): the stacking passes walk the parents in
the order of the `class X(P1, P2)` list, the topological order follows the class names.
`props_stacked_in_topological_order_fails` is the witness; `props_stacked` is the statement that holds:
the inherited entries follow a duplicate-free **parents-first** linearisation `linAnc` of exactly the
ancestors, own entries of each class kept together and in order, then the class's own entries. -/

/-- `A`, `B(A)`, `C(A)`, `D(C, B)`, one property each. -/
def diamondCB : List ParsedClass :=
  [ ⟨[65], [], true, [[97]], [], [], [[97]], [.assign [97]], none⟩,
    ⟨[66], [[65]], true, [[98]], [], [], [[97], [98]], [.callSuper [65], .assign [98]], none⟩,
    ⟨[67], [[65]], true, [[99]], [], [], [[97], [99]], [.callSuper [65], .assign [99]], none⟩,
    ⟨[68], [[67], [66]], false, [[100]], [], [], [[97], [99], [98], [100]],
      [.callSuper [67], .callSuper [66], .assign [100]], none⟩ ]

theorem props_stacked_in_topological_order_fails :
    ¬ (propsOf diamondCB (topo diamondCB) [68]
        = ((topo diamondCB).filter (· ∈ ancestorsOf diamondCB (topo diamondCB) [68])).flatMap
            (ownItems diamondCB (·.ownProps)) ++ ownItems diamondCB (·.ownProps) [68]) := by
  decide

/-- own property / invariant names are not repeated inside one class -/
def OwnNodup (cs : List ParsedClass) (f : ParsedClass → List Name) : Prop := ∀ c ∈ cs, (f c).Nodup

instance (cs : List ParsedClass) (f : ParsedClass → List Name) : Decidable (OwnNodup cs f) := by
  unfold OwnNodup; infer_instance

/-- The linearisation the stacking follows lists exactly the ancestors, once, parents first. -/
theorem linearisation (hu : UniqueNames cs) (hp : ParentsExist cs) (ha : Acyclic cs) (c : Name)
    (hc : c ∈ names cs) :
    (∀ a, a ∈ linAnc (parentsOf cs) (topo cs) c ↔ a ∈ ancestorsOf cs (topo cs) c)
    ∧ (linAnc (parentsOf cs) (topo cs) c).Nodup
    ∧ TopoSorted (parentsOf cs) (linAnc (parentsOf cs) (topo cs) c) := by
  have ho := (topoState_spec hu hp ha).2.2
  have hnd := ho.nodup hu
  have hco := ho.mem.mpr hc
  refine ⟨?_, nodup_linAnc hnd ho.sorted c, linAnc_sorted hnd ho.sorted c hco⟩
  intro a
  rw [mem_linAnc_iff_transGen hnd ho.sorted (ho.covers hp) hco, mem_ancestorsOf hu hp ho]

/-- **Stacked entries** (`f` selects the own properties or the own invariants): inherited ones along the
linearisation of the ancestors, then the own ones; nothing is listed twice. -/
theorem stacked (f : ParsedClass → List Name) (hu : UniqueNames cs) (hp : ParentsExist cs) (ha : Acyclic cs)
    (hown : OwnNodup cs f) (c : Name) (hc : c ∈ names cs) :
    stackAll (parentsOf cs) (ownItems cs f) (topo cs) c
        = (linAnc (parentsOf cs) (topo cs) c).flatMap (ownItems cs f) ++ ownItems cs f c
    ∧ (stackAll (parentsOf cs) (ownItems cs f) (topo cs) c).Nodup := by
  have ho := (topoState_spec hu hp ha).2.2
  have hnd := ho.nodup hu
  have hco := ho.mem.mpr hc
  have ht := ownItems_tagged cs f hown
  have e := stackAll_spec ht hnd ho.sorted c hco
  refine ⟨e, ?_⟩
  rw [e, List.nodup_append]
  refine ⟨nodup_flatMap_tagged ht (nodup_linAnc hnd ho.sorted c), ht.nodup c, ?_⟩
  intro x hx y hy hxy
  subst hxy
  obtain ⟨a, ha', hxa⟩ := List.mem_flatMap.mp hx
  have e1 := ht.tag a x hxa
  have e2 := ht.tag c x hy
  rw [e1] at e2
  subst e2
  have := ((linearisation hu hp ha a hc).1 a).mp ha'
  exact not_own_ancestor hu hp ha a this

/-- **Properties**: inherited (de-duplicated across diamonds, ancestors first), then own. -/
theorem props_stacked (hu : UniqueNames cs) (hp : ParentsExist cs) (ha : Acyclic cs)
    (hown : OwnNodup cs (·.ownProps)) (c : Name) (hc : c ∈ names cs) :
    propsOf cs (topo cs) c
        = (linAnc (parentsOf cs) (topo cs) c).flatMap (ownItems cs (·.ownProps)) ++ ownItems cs (·.ownProps) c
    ∧ (propsOf cs (topo cs) c).Nodup :=
  stacked (·.ownProps) hu hp ha hown c hc

/-- **Invariants**: the same shape. -/
theorem invs_stacked (hu : UniqueNames cs) (hp : ParentsExist cs) (ha : Acyclic cs)
    (hown : OwnNodup cs (·.ownInvs)) (c : Name) (hc : c ∈ names cs) :
    invsOf cs (topo cs) c
        = (linAnc (parentsOf cs) (topo cs) c).flatMap (ownItems cs (·.ownInvs)) ++ ownItems cs (·.ownInvs) c
    ∧ (invsOf cs (topo cs) c).Nodup :=
  stacked (·.ownInvs) hu hp ha hown c hc

/-- **Methods**: either the pass reports a conflict (diamond over a method, override), or the methods of
every class have the shape of the properties — and the inherited methods do not even share a name. -/
theorem methods_stacked (hu : UniqueNames cs) (hp : ParentsExist cs) (ha : Acyclic cs)
    (hown : OwnNodup cs (·.ownMethods))
    (hok : (stackMethods (parentsOf cs) (ownItems cs (·.ownMethods)) (topo cs)).2 = false)
    (c : Name) (hc : c ∈ names cs) :
    methodsOf cs (topo cs) c
        = (linAnc (parentsOf cs) (topo cs) c).flatMap (ownItems cs (·.ownMethods)) ++ ownItems cs (·.ownMethods) c
    ∧ (methodsOf cs (topo cs) c).Nodup := by
  have ho := (topoState_spec hu hp ha).2.2
  have h := (methods_spec (ho.nodup hu) ho.sorted hok c (ho.mem.mpr hc)).1
  unfold methodsOf
  rw [h]
  exact stacked (·.ownMethods) hu hp ha hown c hc

/-- In an accepted model no two properties of a class share a name. -/
theorem props_names_nodup {o : Out} (h : translate cs = .ok o) (c : Name) (hc : c ∈ topo cs) :
    ((propsOf cs (topo cs) c).map (·.2)).Nodup :=
  (translate_ok h).2.propNamesNodup c hc

/-- **Interfaces** exist exactly for abstract classes and classes with descendants. -/
theorem interface_iff (c : ParsedClass) (hc : c ∈ cs) :
    hasInterfaceOf cs (topo cs) c = true ↔ (c.abstract = true ∨ descendantsOf cs (topo cs) c.name ≠ []) := by
  have hn : c.name ∈ names cs := List.mem_map.mpr ⟨c, hc, rfl⟩
  have e : descendantsOf cs (topo cs) c.name ≠ []
      ↔ ontDesc (get (fun _ => []) (ontAncL (parentsOf cs) (topo cs))) (topo cs) c.name ≠ [] := by
    rw [descendantsOf_eq, if_pos hn]
    constructor
    · intro h1 h2
      apply h1
      unfold irDesc ontAnc
      rw [h2]
      rfl
    · intro h1 h2
      apply h1
      cases hd : ontDesc (get (fun _ => []) (ontAncL (parentsOf cs) (topo cs))) (topo cs) c.name with
      | nil => rfl
      | cons x xs =>
        have : x ∈ irDesc (ontDesc (ontAnc (parentsOf cs) (topo cs)) (topo cs)) c.name := by
          rw [mem_irDesc]
          unfold ontAnc
          rw [hd]
          simp
        rw [h2] at this
        simp at this
  rw [e]
  unfold hasInterfaceOf
  simp only [Bool.or_eq_true, Bool.not_eq_true', List.isEmpty_eq_false_iff, ne_eq]

/-! ## Constructors

In the code every in-lined statement is an `AssignArgument` (the model's `InlStmt` has no other form: the
`assert all(isinstance(stmt, AssignArgument) …)` of the pass is the typing of `inlineOne`), so "no remaining
super-constructor call" holds by construction; the content is *which* assignments remain.

The constructors are in-lined in **declaration** order, so parents must be declared first
(`DeclaredParentsFirst`, every Python-legal order); `CtorsWellFormed cs called order` says that every constructor
calls the constructors of the parents selected by `called` (in the order of the inheritance list), then assigns
the own properties in order, and that a parent is skipped only if it has no property at all. Before the second
`fix:` commit the statement failed for every diamond (`a` assigned twice in `D(B, C), B(A), C(A)`). -/

/-- `A` with `self.a = a` written twice (former known finding C05-F1: it was accepted and both assignments were
kept in the in-lined constructors). -/
def twiceAssigned : List ParsedClass :=
  [ ⟨[65], [], false, [[97]], [], [], [[97]], [.assign [97], .assign [97]], none⟩ ]

/-- The repaired front end refuses it while understanding the constructor
("The property a is assigned more than once"). -/
theorem twiceAssigned_rejected :
    (match translate twiceAssigned with | .err stage => stage == "construction" | _ => false) = true := by decide

/-- **No accepted constructor assigns an own property twice** (the repair of C05-F1, for every hierarchy): in an
accepted model the assignments written in the constructor of a class have pairwise different targets, all of
them own properties and arguments of that constructor.  Together with the de-duplication of the inherited
statements by identity (`inlineOne`), a repetition in an in-lined constructor can no longer be copied from the
source. -/
theorem ctor_source_assigns_once {o : Out} (hacc : translate cs = .ok o) (c : ParsedClass) (hc : c ∈ cs) :
    (ownAssigns c).Nodup ∧ ∀ x ∈ ownAssigns c, x ∈ c.ownProps ∧ x ∈ c.args := by
  have h := (accepted_output hacc).2.constructionOk
  unfold constructionErrors at h
  have hcls := (List.any_eq_false.mp h) c hc
  simp only [Bool.or_eq_true, not_or, Bool.not_eq_true, decide_eq_false_iff_not, Decidable.not_not] at hcls
  refine ⟨hcls.2, ?_⟩
  intro x hx
  unfold ownAssigns at hx
  simp only [List.mem_filterMap] at hx
  obtain ⟨s, hs, hsx⟩ := hx
  cases s with
  | callSuper p => simp [Stmt.assigned] at hsx
  | assign y =>
    simp only [Stmt.assigned, Option.some.injEq] at hsx
    subst hsx
    have := (List.any_eq_false.mp hcls.1) _ hs
    simpa using this

/-- The own statements of an in-lined constructor are these assignments: the part of `inlineOne` which does not
come from a super-constructor has exactly the targets `ownAssigns c` (so, in an accepted model, no repetition). -/
theorem inlined_own_targets (st : Name → List InlStmt) (c : ParsedClass)
    (hnone : ∀ p, Stmt.callSuper p ∉ c.ctor) :
    (inlineOne st c).map (·.target) = ownAssigns c := by
  rw [inlineOne_eq]
  unfold ownAssigns
  have key : ∀ (l : List (Stmt × Nat)) (acc : List InlStmt),
      (∀ si ∈ l, ∀ p, si.1 ≠ Stmt.callSuper p) →
      (l.foldl (inlStep st c.name) acc).map (·.target)
      = acc.map (·.target) ++ (l.map (·.1)).filterMap Stmt.assigned := by
    intro l
    induction l with
    | nil => intro acc _; simp
    | cons si l ih =>
      intro acc hl
      simp only [List.foldl_cons, List.map_cons]
      rw [ih _ (fun sj hsj => hl sj (List.mem_cons_of_mem _ hsj))]
      unfold inlStep
      cases hsi : si.1 with
      | callSuper p => exact absurd hsi (hl si List.mem_cons_self p)
      | assign x => simp [Stmt.assigned]
  have := key c.ctor.zipIdx [] (by
    intro si hsi p hp
    have hm := List.mem_zipIdx hsi
    apply hnone p
    rw [← hp, hm.2.2]
    exact List.getElem_mem _)
  simpa [List.zipIdx_map_fst] using this

/-- **In-lined constructor** (`_partial`: canonical constructors): exactly the stacked properties, each assigned once, in the order of the properties. -/
theorem ctor_inlined {called : Name → Bool} (hu : UniqueNames cs) (hp : ParentsExist cs) (ha : Acyclic cs)
    (hd : DeclaredParentsFirst cs) (hown : OwnNodup cs (·.ownProps))
    (hw : CtorsWellFormed cs called (topo cs)) (c : Name) (hc : c ∈ names cs) :
    (inlineAll cs c).map InlStmt.item = propsOf cs (topo cs) c :=
  (inlineAll_spec hu (topoState_spec hu hp ha).2.2 hd hown hw c hc).1

/-- … hence the assignment targets are the property names, and in an accepted model no target repeats. -/
theorem ctor_targets {called : Name → Bool} (hu : UniqueNames cs) (hp : ParentsExist cs) (ha : Acyclic cs)
    (hd : DeclaredParentsFirst cs) (hown : OwnNodup cs (·.ownProps))
    (hw : CtorsWellFormed cs called (topo cs)) (c : Name) (hc : c ∈ names cs) :
    (inlineAll cs c).map (·.target) = (propsOf cs (topo cs) c).map (·.2) := by
  have := congrArg (List.map Prod.snd) (ctor_inlined hu hp ha hd hown hw c hc)
  simpa [InlStmt.item, List.map_map, Function.comp_def] using this

theorem ctor_targets_nodup {called : Name → Bool} {o : Out} (hacc : translate cs = .ok o)
    (hu : UniqueNames cs) (hp : ParentsExist cs) (ha : Acyclic cs)
    (hd : DeclaredParentsFirst cs) (hown : OwnNodup cs (·.ownProps))
    (hw : CtorsWellFormed cs called (topo cs)) (c : Name) (hc : c ∈ names cs) :
    ((inlineAll cs c).map (·.target)).Nodup := by
  rw [ctor_targets hu hp ha hd hown hw c hc]
  exact props_names_nodup hacc c ((topoState_spec hu hp ha).2.2.mem.mpr hc)

/-! ## Model type -/

/-- **`with_model_type` is propagated down**: if no inconsistency was reported, every descendant of a class with
the setting has it as well. -/
theorem modelType_consistent (hu : UniqueNames cs) (hp : ParentsExist cs) (ha : Acyclic cs)
    (hok : (stackSer (parentsOf cs) (ownWmt cs) (topo cs)).2 = false) (c d : Name)
    (hd : d ∈ descendantsOf cs (topo cs) c) (hc : wmtOf cs (topo cs) c = true) :
    wmtOf cs (topo cs) d = true := by
  have ho := (topoState_spec hu hp ha).2.2
  exact ser_descends (ho.nodup hu) ho.sorted (ho.covers hp) hok ((descendants_exact hu hp ha c d).mp hd) hc

/-! ## Determinism of the type order (used by C22) -/

/-- The topological order is a function of the *set* of classes: it does not depend on the declaration order. -/
theorem topo_perm_invariant {cs' : List ParsedClass} (h : cs.Perm cs') (hu : UniqueNames cs) : topo cs = topo cs' :=
  topo_perm_invariant' h hu

/-! ## Non-vacuity: the diamond meets the hypotheses and is accepted -/

example : UniqueNames diamondCB ∧ ParentsExist diamondCB ∧ OwnNodup diamondCB (·.ownProps) := by decide

example : Acyclic diamondCB :=
  acyclic_of_certificate [[65], [66], [67], [68]] (by decide) (by decide)

example : ancestorsOf diamondCB (topo diamondCB) [68] = [[65], [66], [67]] := by decide

example : DeclaredParentsFirst diamondCB := by
  intro l1 c l2 hs p hp
  rcases firstNotTopo_none (names diamondCB) [] (by decide) l1 c l2 hs p hp with h | h
  · simp at h
  · exact h

instance (called : Name → Bool) (c : ParsedClass) : Decidable (CanonicalCtor called c) := by
  unfold CanonicalCtor; infer_instance

example : (∀ c ∈ diamondCB, CanonicalCtor (fun _ => true) c) := by decide

example : (inlineAll diamondCB [68]).map (·.target) = [[97], [99], [98], [100]] := by decide

example : (match translate diamondCB with | .ok _ => true | _ => false) = true := by decide

example : propsOf diamondCB (topo diamondCB) [68] = [([65], [97]), ([67], [99]), ([66], [98]), ([68], [100])] := by
  decide

end AasVerif.Props.C05
