import AasVerif.Lemmas.Wrap
import AasVerif.Gen.Wrap
/-!
# C27 — Message wrapping keeps text and layout rules

Property theorems about `Wrap.wrap` (model of `common.wrap_text_into_lines`),
for every text, every width and every article list.
-/
namespace AasVerif.Props.C27
open AasVerif AasVerif.Wrap

/-- Concatenating the segments gives back the text exactly
(so the `@ensure` of the Python function and its inner `assert` never fire). -/
theorem wrap_join (arts : List Text) (w : Nat) (t : Text) :
    (wrap arts w t).flatten = t := by
  unfold wrap
  simp only
  split
  · simp
  · have h := flatten_segAux w [] (tokens arts t)
    simp only [List.length_nil, List.nil_append] at h
    rw [h, tokens, flatten_addSpaces, joinSp_tokensAux, List.nil_append, joinSp_splitSp]

/-- The inner `assert "".join(tokens) == text` never fires. -/
theorem tokens_join (arts : List Text) (t : Text) : (tokens arts t).flatten = t := by
  rw [tokens, flatten_addSpaces, joinSp_tokensAux, List.nil_append, joinSp_splitSp]

theorem segAux_fits (w : Nat) (acc : Text) (ts : List Text) (hacc : acc.length ≤ w) :
    ∀ s ∈ segAux w acc.length acc ts, s.length ≤ w ∨ s ∈ ts := by
  induction ts generalizing acc with
  | nil =>
    intro s hs
    simp only [segAux] at hs
    split at hs
    · simp at hs; left; rw [hs]; exact hacc
    · simp at hs
  | cons t ts ih =>
    intro s hs
    simp only [segAux] at hs
    split at hs
    · simp only [List.mem_cons] at hs
      rcases hs with h | h | h
      · left; rw [h]; exact hacc
      · right; simp [h]
      · have := ih [] (by simp) s (by simpa using h)
        rcases this with h' | h'
        · left; exact h'
        · right; simp [h']
    · next hnot =>
      split at hs
      · simp only [List.mem_cons] at hs
        rcases hs with h | h
        · left; rw [h]; exact hacc
        · have := ih t (by omega) s h
          rcases this with h' | h'
          · left; exact h'
          · right; simp [h']
      · next hnot2 =>
        have := ih (acc ++ t) (by simp; omega) s (by simpa using hs)
        rcases this with h' | h'
        · left; exact h'
        · right; simp [h']

/-- Every segment fits the width unless it is a single token
(one word together with the articles glued to it, and its trailing space). -/
theorem wrap_fits (arts : List Text) (w : Nat) (t : Text) :
    ∀ s ∈ wrap arts w t, s.length ≤ w ∨ s ∈ tokens arts t := by
  intro s hs
  unfold wrap at hs
  simp only at hs
  split at hs
  · next h1 =>
    right
    simp only [List.mem_singleton] at hs
    subst hs
    -- a single part: the only token is the text itself
    have hj := tokens_join arts s
    unfold tokens at hj ⊢
    cases hp : splitSp s with
    | nil => exact absurd hp (splitSp_ne_nil s)
    | cons p ps =>
      rw [hp] at h1 hj
      cases ps with
      | nil =>
        by_cases hm : p ∈ arts <;> simp [tokensAux, hm, addSpaces] at hj ⊢ <;> exact hj.symm
      | cons q qs => simp at h1
  · exact segAux_fits w [] (tokens arts t) (by simp) s (by simpa using hs)

/-- Shape of the tokens built by the article-gluing loop from the parts of a text: a (possibly
empty) list `body` of tokens each of which is either one part that is not an article, or an
article, further articles / empty parts and then a non-empty non-article word joined by single
spaces; followed by a trailing run `trail` of bare articles / empty parts (the `pending` list
left over when no word follows). -/
theorem tokens_shape (arts : List Text) (parts : List Text) :
    ∃ body trail, tokensAux arts [] parts = body ++ trail
      ∧ (∀ tok ∈ body,
          (tok ∈ parts ∧ tok ∉ arts)
          ∨ ∃ q qs p, tok = joinSp (q :: qs ++ [p]) ∧ q ∈ arts ∧ (∀ x ∈ qs, x ∈ arts ∨ x = [])
              ∧ p ∉ arts ∧ p ≠ [] ∧ ∀ x ∈ q :: qs ++ [p], x ∈ parts)
      ∧ (∀ tok ∈ trail, (tok ∈ arts ∨ tok = []) ∧ tok ∈ parts) :=
  tokensAux_shape_aux arts (fun x => x ∈ parts) parts [] (Or.inl rfl) (by simp) (fun _ hx => hx)

/-- The article rule, full strength (every text, width and article list): if a segment's last
word (last non-empty piece between spaces) is an article, then no word other than articles
follows in any later segment. -/
theorem no_dangling_article (arts : List Text) (w : Nat) (t : Text) (pre post : List Text) (s a : Text)
    (h : wrap arts w t = pre ++ s :: post)
    (hlast : ((splitSp s).filter (fun p => p ≠ [])).getLast? = some a) (ha : a ∈ arts) :
    ∀ x ∈ post, ∀ p ∈ splitSp x, p ≠ [] → p ∈ arts := by
  unfold wrap at h
  simp only at h
  split at h
  · cases pre with
    | nil =>
      simp only [List.nil_append, List.cons.injEq] at h
      intro x hx; rw [← h.2] at hx; simp at hx
    | cons b pre => simp at h
  · obtain ⟨T0, T1, T2, he, hs, hpost⟩ :=
      segAux_split w 0 [] (tokens arts t) pre post s (by simpa using h)
    simp only [List.nil_append] at he
    obtain ⟨body, trail, hbt, hbody, htrail⟩ :=
      tokensAux_shape_aux arts (fun x => x ∈ splitSp t) (splitSp t) [] (Or.inl rfl) (by simp)
        (fun _ hx => hx)
    have hP : ∀ x, x ∈ splitSp t → 32 ∉ x := splitSp_no_sp t
    have hsp : SpacedButLast (T0 ++ T1 ++ T2) := by
      rw [← he]; exact spacedButLast_addSpaces _
    have hmap : (T0 ++ T1).map words ++ T2.map words = body.map words ++ trail.map words := by
      rw [← List.map_append, ← he, tokens, map_words_addSpaces, hbt, List.map_append]
    have hs1 : SpacedButLast T1 := hsp.infix
    have hws : words s = (T1.map words).flatten := by rw [hs, words_flatten T1 hs1]
    have hT2 : ∀ tok ∈ T2, ∀ p ∈ words tok, p ∈ arts := by
      rw [List.append_eq_append_iff] at hmap
      rcases hmap with ⟨a', h1, _⟩ | ⟨c', _, h2⟩
      · exfalso
        have hno : NoArtLast arts (T1.map words).flatten := by
          apply NoArtLast.flatten
          intro ws hws'
          have hmem : ws ∈ body.map words := by
            rw [h1]; simp only [List.map_append, List.mem_append]; exact Or.inl (Or.inr hws')
          obtain ⟨tok, htok, rfl⟩ := List.mem_map.1 hmem
          rcases hbody tok htok with hw | hg
          · exact noArtLast_word hP hw
          · exact noArtLast_glued hP hg
        exact hno a (hws ▸ hlast) ha
      · intro tok htok p hp
        have hmem : words tok ∈ trail.map words := by
          rw [h2]; exact List.mem_append_right _ (List.mem_map.2 ⟨tok, htok, rfl⟩)
        obtain ⟨tok', htok', he'⟩ := List.mem_map.1 hmem
        rw [← he'] at hp
        exact words_bare hP (htrail tok' htok') p hp
    intro x hx p hp hpne
    obtain ⟨l, g, r, hg, hxg⟩ := hpost x hx
    have hsg : SpacedButLast g := by
      have : SpacedButLast ((T0 ++ T1 ++ l) ++ g ++ r) := by
        rw [hg] at hsp; simpa [List.append_assoc] using hsp
      exact this.infix
    have hpw : p ∈ words x := mem_words.2 ⟨hp, hpne⟩
    rw [hxg, words_flatten g hsg] at hpw
    simp only [List.mem_flatten, List.mem_map] at hpw
    obtain ⟨ws, ⟨tok, htok, rfl⟩, hpws⟩ := hpw
    exact hT2 tok (by rw [hg]; simp [htok]) p hpws

/-- Non-vacuity / concrete instances (the Gen tables are the ones of the current source). -/
example : wrap Gen.Wrap.articles 5 (Text.ofString "x a the word")
    = [Text.ofString "x ", Text.ofString "a the word"] := by decide

example : wrap Gen.Wrap.articles Gen.Wrap.defaultWidth (Text.ofString "") = [[]] := by decide

/-- The hypotheses of `no_dangling_article` are met by a concrete output: the second segment of
`wrap "x a the" 2` ends with the article "a", and only the article "the" follows. -/
example : wrap Gen.Wrap.articles 2 (Text.ofString "x a the")
      = [Text.ofString "x "] ++ Text.ofString "a " :: [Text.ofString "the"]
    ∧ ((splitSp (Text.ofString "a ")).filter (fun p => p ≠ [])).getLast? = some (Text.ofString "a")
    ∧ Text.ofString "a" ∈ Gen.Wrap.articles := by decide

/-- The second corpus witness of the repaired defect (article followed by a double space). -/
example : wrap Gen.Wrap.articles 6 (Text.ofString "the  word abcdef")
    = [[], Text.ofString "the  word ", Text.ofString "abcdef"] := by decide

end AasVerif.Props.C27
