import AasVerif.Lemmas.Wrap
import AasVerif.Gen.Wrap
/-!
# C27 — Message wrapping keeps text and layout rules

Property theorems about `Wrap.wrap` (model of `common.wrap_text_into_lines`),
for every text, every width and every article list.
-/
namespace AasVerif.Props.C27
open AasVerif AasVerif.Wrap

/-- Concatenating the segments gives back the text exactly
(so the `@ensure` of the Python function and its inner `assert` never fire). -/
theorem wrap_join (arts : List Text) (w : Nat) (t : Text) :
    (wrap arts w t).flatten = t := by
  unfold wrap
  simp only
  split
  · simp
  · have h := flatten_segAux w [] (tokens arts t)
    simp only [List.length_nil, List.nil_append] at h
    rw [h, tokens, flatten_addSpaces, joinSp_tokensAux, List.nil_append, joinSp_splitSp]

/-- The inner `assert "".join(tokens) == text` never fires. -/
theorem tokens_join (arts : List Text) (t : Text) : (tokens arts t).flatten = t := by
  rw [tokens, flatten_addSpaces, joinSp_tokensAux, List.nil_append, joinSp_splitSp]

theorem segAux_fits (w : Nat) (acc : Text) (ts : List Text) (hacc : acc.length ≤ w) :
    ∀ s ∈ segAux w acc.length acc ts, s.length ≤ w ∨ s ∈ ts := by
  induction ts generalizing acc with
  | nil =>
    intro s hs
    simp only [segAux] at hs
    split at hs
    · simp at hs; left; rw [hs]; exact hacc
    · simp at hs
  | cons t ts ih =>
    intro s hs
    simp only [segAux] at hs
    split at hs
    · simp only [List.mem_cons] at hs
      rcases hs with h | h | h
      · left; rw [h]; exact hacc
      · right; simp [h]
      · have := ih [] (by simp) s (by simpa using h)
        rcases this with h' | h'
        · left; exact h'
        · right; simp [h']
    · next hnot =>
      split at hs
      · simp only [List.mem_cons] at hs
        rcases hs with h | h
        · left; rw [h]; exact hacc
        · have := ih t (by omega) s h
          rcases this with h' | h'
          · left; exact h'
          · right; simp [h']
      · next hnot2 =>
        have := ih (acc ++ t) (by simp; omega) s (by simpa using hs)
        rcases this with h' | h'
        · left; exact h'
        · right; simp [h']

/-- Every segment fits the width unless it is a single token
(one word together with the articles glued to it, and its trailing space). -/
theorem wrap_fits (arts : List Text) (w : Nat) (t : Text) :
    ∀ s ∈ wrap arts w t, s.length ≤ w ∨ s ∈ tokens arts t := by
  intro s hs
  unfold wrap at hs
  simp only at hs
  split at hs
  · next h1 =>
    right
    simp only [List.mem_singleton] at hs
    subst hs
    -- a single part: the only token is the text itself
    have hj := tokens_join arts s
    unfold tokens at hj ⊢
    cases hp : splitSp s with
    | nil => exact absurd hp (splitSp_ne_nil s)
    | cons p ps =>
      rw [hp] at h1 hj
      cases ps with
      | nil =>
        by_cases hm : p ∈ arts <;> simp [tokensAux, hm, addSpaces] at hj ⊢ <;> exact hj.symm
      | cons q qs => simp at h1
  · exact segAux_fits w [] (tokens arts t) (by simp) s (by simpa using hs)

/-- Non-vacuity / concrete instances (the Gen tables are the ones of the current source). -/
example : wrap Gen.Wrap.articles 5 (Text.ofString "x a the word")
    = [Text.ofString "x ", Text.ofString "a the word"] := by decide

example : wrap Gen.Wrap.articles Gen.Wrap.defaultWidth (Text.ofString "") = [[]] := by decide

end AasVerif.Props.C27
