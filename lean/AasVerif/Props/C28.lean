import AasVerif.Model.Smoke
/-!
# C28 — Smoke check agrees with the real generators (decision logic over the regenerated skeleton)
-/
namespace AasVerif.Props.C28
open AasVerif AasVerif.Smoke

theorem run_zero_iff (ok : String → Bool) (ss : List String) :
    (run ok ss).1 = 0 ↔ ∀ s ∈ ss, ok s = true := by
  induction ss with
  | nil => simp [run]
  | cons s rest ih =>
    unfold run
    by_cases h : ok s = true
    · simp [h, ih]
    · simp [h]

/-- The smoke tool exits 0 exactly when every one of its stages succeeded. -/
theorem smoke_rc0_iff (ok : String → Bool) :
    (execute ok).1 = 0 ↔ ∀ s ∈ Gen.Smoke.stages, ok s = true :=
  run_zero_iff ok _

/-- It exits 1 otherwise, and the reporting stage is the first one that failed. -/
theorem smoke_rc1_reports_first_failure (ok : String → Bool) (ss : List String) (s : String)
    (h : run ok ss = (1, some s)) : s ∈ ss ∧ ok s = false := by
  induction ss with
  | nil => simp [run] at h
  | cons a rest ih =>
    unfold run at h
    by_cases ha : ok a = true
    · simp [ha] at h
      have := ih h
      exact ⟨List.mem_cons_of_mem _ this.1, this.2⟩
    · simp [ha] at h
      subst h
      simp [ha]

theorem smoke_status_is_0_or_1 (ok : String → Bool) (ss : List String) :
    (run ok ss).1 = 0 ∨ (run ok ss).1 = 1 := by
  induction ss with
  | nil => simp [run]
  | cons a rest ih =>
    unfold run
    by_cases ha : ok a = true <;> simp [ha, ih]

/-- *Table*: the stages of the current source are exactly: the front end (parse, imports,
symbol table, intermediate translation), the schema-constraint inference and the C# smoke
transpilation — in this order. -/
theorem stages_are :
    Gen.Smoke.stages =
      ["parse.source_to_atok", "parse.check_expected_imports", "parse.atok_to_symbol_table",
       "intermediate.translate", "infer_for_schema.infer_constraints_by_class",
       "_smoke_transpile_to_csharp"] := by decide

/-- *Table*: inside the C# stage the errors of type verification are returned, those of type
generation and verification generation are extended into the returned list; none is dropped. -/
theorem transpile_plumbing :
    Gen.Smoke.transpile =
      [("csharp_lib.verify_for_types", "returned"), ("csharp_lib.generate_types", "extended"),
       ("csharp_lib.generate_verification", "extended")] ∧
    Gen.Smoke.transpileReturnsErrors = true := by decide

/-- Hence the C# stage succeeds iff C# type verification, type generation and verification
generation all succeed. -/
theorem transpile_ok_iff (callOk : String → Bool) :
    transpileOk callOk = true ↔
      (callOk "csharp_lib.verify_for_types" = true ∧ callOk "csharp_lib.generate_types" = true ∧
       callOk "csharp_lib.generate_verification" = true) := by
  unfold transpileOk
  rw [transpile_plumbing.1]
  simp [List.all]

end AasVerif.Props.C28
