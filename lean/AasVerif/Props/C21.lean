import AasVerif.Lemmas.Collide
import AasVerif.Lemmas.Naming
import AasVerif.Lemmas.NamingJson
/-!
# C21 — Distinct meta-model names never collide in generated code

`Collide.verify t mm` is the model of the collision check of target `t`
(`<target>.lib.verify_for_types` for the six SDK targets, the `Definitions.update_for/update` chain of
the JSON-schema generator, the `observed_definitions` loop of the XSD generator); `checkedScopes t mm`
is its scope table (partly regenerated from the source, see `Gen.Naming`), `emittedScopes t mm` adds the
scopes the generators emit into but no check covers.  `scopeNames s` are the generated names of the
entities of scope `s` (`Except.error` = a naming function raises).
-/
namespace AasVerif.Props.C21
open AasVerif AasVerif.Naming AasVerif.Collide

/-! ## The check is sound and complete for its scope table -/

/-- If the check passes, the naming functions are injective on every reported scope
(`verify_ok_injective` of the design). -/
theorem verify_ok_injective (t : String) (mm : MM) (h : verify t mm = .ok ()) :
    ∀ s ∈ checkedScopes t mm, s.reported = true → ∃ ns, scopeNames s = .ok ns ∧ ns.Nodup := by
  obtain ⟨l, hl, hall⟩ := (verify_ok_iff t mm).mp h
  intro s hs hrep
  obtain ⟨ns, h1, h2⟩ := resolve_ok_forward hl s hs
  exact ⟨ns, h1, hall (s, ns) h2 hrep⟩

/-- If two entities of a reported scope get the same generated name, the check does not pass: it
reports a non-empty list of collisions (or a naming function raised) — `verify_complete`. -/
theorem verify_complete (t : String) (mm : MM) (s : Scope) (hs : s ∈ checkedScopes t mm)
    (hrep : s.reported = true) (ns : List Text) (hns : scopeNames s = .ok ns) (hdup : ¬ ns.Nodup) :
    (∃ cs, verify t mm = .err cs ∧ cs ≠ []) ∨ (∃ site, verify t mm = .crash site) := by
  unfold verify
  cases hres : resolve (checkedScopes t mm) with
  | error site => exact Or.inr ⟨site, rfl⟩
  | ok l =>
    left
    simp only
    by_cases hnil : collisionsOf l = []
    · exfalso
      obtain ⟨ns', h1, h2⟩ := resolve_ok_forward hres s hs
      rw [hns] at h1
      cases h1
      exact hdup ((collisionsOf_nil_iff l).mp hnil (s, ns) h2 hrep)
    · exact ⟨collisionsOf l, by rw [if_neg hnil], hnil⟩

/-- No false alarm: an error verdict means that some checked scope really has two entities with the same
generated name. -/
theorem verify_err_sound (t : String) (mm : MM) (cs : List Collision) (h : verify t mm = .err cs) :
    ∃ s ∈ checkedScopes t mm, ∃ ns, scopeNames s = .ok ns ∧ ¬ ns.Nodup := by
  unfold verify at h
  split at h
  · cases h
  · next l hl =>
    split at h
    · cases h
    · next hne =>
      have : ¬ ∀ p ∈ l, p.1.reported = true → p.2.Nodup := fun hall => hne ((collisionsOf_nil_iff l).mpr hall)
      have ⟨p, hp⟩ := Classical.not_forall.mp this
      have ⟨hpl, hp2⟩ := Classical.not_imp.mp hp
      have ⟨_, hp3⟩ := Classical.not_imp.mp hp2
      obtain ⟨h1, h2⟩ := resolve_ok_backward hl p hpl
      exact ⟨p.1, h1, p.2, h2, hp3⟩

/-! ## On the current source every checked scope is reported

`Gen.Naming.intraReturnsError`, `modelTypeChecked`, … are regenerated from the source on every run; with
`_verify_intra_structure_collisions` ending in `return None` (the defect fixed in 555a076f) or the result
of `definitions.update({"ModelType": …})` ignored (546b5563) the `decide`s below fail. -/

/-- The naming functions applied inside `_verify_intra_structure_collisions` (regenerated from the source) are
the ones the generators of that target use for the same members: every property/method loop and, for
cpp/python/typescript, the literal loop are present.  A dropped loop or another naming function in the check
changes `Gen.Naming.intraLoops` and this `decide` no longer closes. -/
theorem intra_loops_pinned : Gen.Naming.intraLoops = [
  ("cpp", [("literal", "cpp.enum_literal_name"), ("prop", "cpp.getter_name"), ("prop", "cpp.mutable_getter_name"), ("prop", "cpp.setter_name"), ("prop", "cpp.private_property_name"), ("method", "cpp.method_name")]),
  ("csharp", [("literal", "csharp.enum_literal_name"), ("prop", "csharp.property_name"), ("method", "csharp.method_name")]),
  ("golang", [("prop", "golang.getter_name"), ("prop", "golang.setter_name"), ("prop", "golang.private_property_name"), ("method", "golang.method_name")]),
  ("java", [("literal", "java.enum_literal_name"), ("prop", "java.property_name"), ("prop", "java.getter_name"), ("prop", "java.setter_name"), ("method", "java.method_name")]),
  ("python", [("literal", "python.enum_literal_name"), ("prop", "python.property_name"), ("method", "python.method_name")]),
  ("typescript", [("literal", "typescript.enum_literal_name"), ("prop", "typescript.property_name"), ("method", "typescript.method_name")])
] := by decide

/-- The other dictionaries of the SDK checks (regenerated from the source): which collections of the symbol table they
walk and which naming function they apply — the one the generator of these declarations uses. -/
theorem global_checks_pinned : Gen.Naming.globalChecks = [
  ("cpp", [("constants:constant_name", [⟨"constants", "cpp.constant_name", [], [], [], []⟩]),
    ("verification_functions:function_name", [⟨"verification_functions", "cpp.function_name", [], [], [], []⟩, ⟨"constrained_primitives", "cpp.function_name", [118, 101, 114, 105, 102, 121, 95], [], [], []⟩])]),
  ("csharp", [("constants:property_name", [⟨"constants", "csharp.property_name", [], [], [], []⟩]),
    ("verification_functions:method_name", [⟨"verification_functions", "csharp.method_name", [], [], [], []⟩, ⟨"constrained_primitives", "csharp.class_name", [], [], [86, 101, 114, 105, 102, 121], []⟩])]),
  ("golang", [("constants:constant_name", [⟨"constants", "golang.constant_name", [], [], [], []⟩]),
    ("verification_functions:function_name", [⟨"verification_functions", "golang.function_name", [], [], [], []⟩, ⟨"pattern_verification_functions", "golang.private_constant_name", [], [95, 114, 101], [], []⟩, ⟨"constrained_primitives", "golang.function_name", [118, 101, 114, 105, 102, 121, 95], [], [], []⟩, ⟨"enumerations", "golang.function_name", [118, 101, 114, 105, 102, 121, 95], [], [], []⟩, ⟨"concrete_classes", "golang.function_name", [118, 101, 114, 105, 102, 121, 95], [], [], []⟩]),
    ("enumerations:private_constant_name", [⟨"enumerations", "golang.private_constant_name", [], [95, 102, 114, 111, 109, 95, 115, 116, 114, 105, 110, 103, 95, 109, 97, 112], [], []⟩]),
    ("enumerations:function_name", [⟨"enumerations", "golang.function_name", [], [95, 102, 114, 111, 109, 95, 106, 115, 111, 110, 97, 98, 108, 101], [], []⟩, ⟨"classes", "golang.function_name", [], [95, 102, 114, 111, 109, 95, 106, 115, 111, 110, 97, 98, 108, 101], [], []⟩, ⟨"concrete_classes", "golang.private_function_name", [], [95, 116, 111, 95, 109, 97, 112], [], []⟩, ⟨"classes_with_descendants", "golang.private_function_name", [], [95, 102, 114, 111, 109, 95, 109, 97, 112], [], []⟩])]),
  ("java", [("constants:property_name", [⟨"constants", "java.property_name", [], [], [], []⟩]),
    ("verification_functions:method_name", [⟨"verification_functions", "java.method_name", [], [], [], []⟩, ⟨"pattern_verification_functions", "java.private_method_name", [99, 111, 110, 115, 116, 114, 117, 99, 116, 95], [], [], []⟩, ⟨"constrained_primitives", "java.class_name", [], [], [118, 101, 114, 105, 102, 121], []⟩])]),
  ("python", [("constants:constant_name", [⟨"constants", "python.constant_name", [], [], [], []⟩]),
    ("verification_functions:function_name", [⟨"verification_functions", "python.function_name", [], [], [], []⟩, ⟨"constrained_primitives", "python.function_name", [118, 101, 114, 105, 102, 121, 95], [], [], []⟩]),
    ("enumerations:function_name", [⟨"enumerations", "python.function_name", [], [95, 102, 114, 111, 109, 95, 106, 115, 111, 110, 97, 98, 108, 101], [], []⟩, ⟨"classes", "python.function_name", [], [95, 102, 114, 111, 109, 95, 106, 115, 111, 110, 97, 98, 108, 101], [], []⟩])]),
  ("typescript", [("constants:constant_name", [⟨"constants", "typescript.constant_name", [], [], [], []⟩]),
    ("verification_functions:function_name", [⟨"verification_functions", "typescript.function_name", [], [], [], []⟩, ⟨"pattern_verification_functions", "typescript.function_name", [99, 111, 110, 115, 116, 114, 117, 99, 116, 95], [], [], []⟩, ⟨"constrained_primitives", "typescript.function_name", [118, 101, 114, 105, 102, 121, 95], [], [], []⟩])])
] := by decide

/-- Names derived from a member name inside the intra-structure loops (one dictionary each). -/
theorem intra_derived_pinned : Gen.Naming.intraDerived = [
  ("cpp", []),
  ("csharp", []),
  ("golang", []),
  ("java", []),
  ("python", []),
  ("typescript", [("prop", ⟨"members", "typescript.method_name", [115, 101, 116, 95], [95, 102, 114, 111, 109, 95, 106, 115, 111, 110, 97, 98, 108, 101], [], []⟩)])] := by decide

theorem intra_reported_all : ∀ t ∈ sdkTargets, intraReported t = true := by decide

theorem schema_checks_present :
    Gen.Naming.jsonDefinitionsChecked = true ∧ Gen.Naming.modelTypeChecked = true ∧
      Gen.Naming.xsdObservedChecked = true := by decide

/-- The schema generators report two properties of a class with one JSON / XML name, and the XSD generator observes
`xs:simpleType` and `xs:complexType` in one symbol space (the former findings C21-F18, F19, F29, F30). -/
theorem schema_member_checks_present :
    Gen.Naming.jsonPropertiesChecked = true ∧ Gen.Naming.xsdSequenceChecked = true ∧
      Gen.Naming.xsdTypesShared = true := by decide

/-- The targets which emit a `ModelType` enumeration among the types reserve its name (C21-F3, F10, F28). -/
theorem model_type_reserved :
    (∀ t ∈ sdkTargets, emitsModelTypeEnum t = true → modelTypeReserved t = true) ∧
      Gen.Naming.modelTypeLiteralsReserved = true := by decide

theorem all_reported (t : String) (mm : MM) : ∀ s ∈ checkedScopes t mm, s.reported = true := by
  intro s hs
  unfold checkedScopes at hs
  split at hs
  · rcases List.mem_append.mp hs with hs | hs
    · simp only [List.mem_cons, List.mem_nil_iff, or_false] at hs
      rcases hs with rfl | rfl
      · exact schema_checks_present.1
      · show (Gen.Naming.jsonDefinitionsChecked && Gen.Naming.modelTypeChecked) = true
        decide
    · split at hs
      · unfold jsonPropertyScopes at hs
        obtain ⟨c, _, rfl⟩ := List.mem_map.mp hs
        rfl
      · exact absurd hs List.not_mem_nil
  · split at hs
    · rcases List.mem_append.mp hs with hs | hs
      · rcases List.mem_append.mp hs with hs | hs
        · split at hs
          · rw [List.mem_singleton] at hs
            subst hs
            show (true && Gen.Naming.xsdObservedChecked) = true
            decide
          · obtain ⟨tag, _, rfl⟩ := List.mem_map.mp hs
            exact schema_checks_present.2.2
        · rw [List.mem_singleton] at hs
          subst hs
          exact schema_checks_present.2.2
      · split at hs
        · unfold xsdSequenceScopes at hs
          obtain ⟨c, _, rfl⟩ := List.mem_map.mp hs
          rfl
        · exact absurd hs List.not_mem_nil
    · split at hs
      · next hsdk =>
        rcases List.mem_cons.mp hs with rfl | hs
        · rfl
        · rcases List.mem_append.mp hs with hs | hs
          · unfold intraScopes at hs
            obtain ⟨ot, _, hot⟩ := List.mem_flatMap.mp hs
            have hrep := intra_reported_all t hsdk
            cases ot with
            | enum e =>
              simp only at hot
              split at hot
              · exact absurd hot List.not_mem_nil
              · rw [List.mem_singleton] at hot
                subst hot
                exact hrep
            | cprim n => exact absurd hot List.not_mem_nil
            | cls c =>
              rcases List.mem_cons.mp hot with rfl | hot
              · exact hrep
              · unfold derivedPropScopes at hot
                obtain ⟨kl, _, rfl⟩ := List.mem_map.mp hot
                exact hrep
          · unfold globalScopes at hs
            obtain ⟨d, _, rfl⟩ := List.mem_map.mp hs
            rfl
      · exact absurd hs List.not_mem_nil

/-- **C21 for the scopes the checks look at** (all eight targets): a passing check means that no two
entities of a checked scope receive the same generated name. -/
theorem C21_checked (t : String) (mm : MM) (h : verify t mm = .ok ()) :
    ∀ s ∈ checkedScopes t mm, ∃ ns, scopeNames s = .ok ns ∧ ns.Nodup :=
  fun s hs => verify_ok_injective t mm h s hs (all_reported t mm s hs)

/-- … and conversely a collision in any checked scope is reported (or the check crashes in a naming
function's `@require`). -/
theorem C21_checked_complete (t : String) (mm : MM) (s : Scope) (hs : s ∈ checkedScopes t mm)
    (ns : List Text) (hns : scopeNames s = .ok ns) (hdup : ¬ ns.Nodup) :
    (∃ cs, verify t mm = .err cs ∧ cs ≠ []) ∨ (∃ site, verify t mm = .crash site) :=
  verify_complete t mm s hs (all_reported t mm s hs) ns hns hdup

/-! ## Full strength: every scope the generators emit into

`emittedScopes t mm = checkedScopes t mm ++ uncheckedScopes t mm`, where the unchecked scopes are the families of
generated names (`sdkFamilies`, hand-written from the GENERATORS with the naming functions they use; the JSON
`properties`, the XSD `xs:sequence` and type symbol space) that the target's check — as regenerated from the source
— does not cover.  Until the repairs of C21-F1 … C21-F37 this list was not empty (constants, verification functions,
constrained primitives, C#/Java literals, accessors, private fields, helper names derived from the type names with a
coarser conversion, the reserved `ModelType`, JSON properties, XSD sequences and types), the full statement was false
(`C21_full_fails`) and only `C21_partial` (extra hypothesis "no collision in an unchecked scope") held.  On the
repaired source every family is covered: -/

/-- Every family of names the SDK generators derive from the meta-model is looked at by the target's check, with the
naming function of the generator (`decide` over the regenerated description of the checks). -/
theorem families_covered : ∀ t ∈ sdkTargets, (sdkFamilies t).all (fun f => f.covered) = true := by decide

theorem unchecked_nil (t : String) (mm : MM) : uncheckedScopes t mm = [] := by
  unfold uncheckedScopes
  split
  · next hsdk =>
    rw [List.flatMap_eq_nil_iff]
    intro f hf
    have hc : f.covered = true := List.all_eq_true.mp (families_covered t hsdk) f hf
    rw [if_pos hc]
  · split
    · rw [if_pos schema_member_checks_present.1]
    · split
      · rw [if_pos schema_member_checks_present.2.2, if_pos schema_member_checks_present.2.1]
        rfl
      · rfl

/-- **C21** (all eight targets, every scope the generators emit into): if the target's check passes, no two entities
of any emitted scope receive the same generated name. -/
theorem C21_full (t : String) (mm : MM) (h : verify t mm = .ok ()) :
    ∀ s ∈ emittedScopes t mm, ∃ ns, scopeNames s = .ok ns ∧ ns.Nodup := by
  intro s hs
  unfold emittedScopes at hs
  rw [unchecked_nil, List.append_nil] at hs
  exact C21_checked t mm h s hs

/-- … and a collision in any emitted scope is reported (or the check crashes in a naming function's `@require`). -/
theorem C21_full_complete (t : String) (mm : MM) (s : Scope) (hs : s ∈ emittedScopes t mm)
    (ns : List Text) (hns : scopeNames s = .ok ns) (hdup : ¬ ns.Nodup) :
    (∃ cs, verify t mm = .err cs ∧ cs ≠ []) ∨ (∃ site, verify t mm = .crash site) := by
  unfold emittedScopes at hs
  rw [unchecked_nil, List.append_nil] at hs
  exact C21_checked_complete t mm s hs ns hns hdup

/-- The driver's `unchecked` request (collisions in scopes no check covers) therefore always answers `ok`. -/
theorem uncheckedCollisions_trivial (t : String) (mm : MM) : uncheckedCollisions t mm = .ok () := by
  unfold uncheckedCollisions
  rw [unchecked_nil]
  rfl

/-- Non-vacuity: a model with two enumerations, a hierarchy, constants and functions passes all eight checks. -/
def sampleMM : MM :=
  { types := [.enum { name := Text.ofString "Color_kind", used := true, literals := [Text.ofString "Red_one", Text.ofString "Green"] },
              .cprim (Text.ofString "Non_empty"),
              .cls { name := Text.ofString "Base_thing", abstract := true, hasDesc := true, used := false,
                     props := [Text.ofString "base_prop"], ownProps := [Text.ofString "base_prop"], methods := [] },
              .cls { name := Text.ofString "Leaf_thing", abstract := false, hasDesc := false, used := false,
                     props := [Text.ofString "base_prop", Text.ofString "some_URL"], ownProps := [Text.ofString "some_URL"],
                     methods := [Text.ofString "do_it"] }],
    consts := [Text.ofString "Some_const"], funcs := [Text.ofString "matches_something"] }

example : ∀ t ∈ targets, verify t sampleMM = .ok () := by decide

def isErr : Res (List Collision) Unit → Bool
  | .err _ => true
  | _ => false

/-- … and the checks do fire: `some_Url` / `some_url` collide in all six SDK targets (`some_URL` would not in Go, which keeps abbreviations). -/
def collidingMM : MM :=
  { types := [.cls { name := Text.ofString "Something", abstract := false, hasDesc := false, used := false,
                     props := [Text.ofString "some_Url", Text.ofString "some_url"], ownProps := [], methods := [] }],
    consts := [], funcs := [] }

example : ∀ t ∈ sdkTargets, isErr (verify t collidingMM) = true := by decide

/-! The witnesses of the repaired findings are rejected by the model of the repaired checks (with the regenerated
tables of a tree without the repair these `decide`s fail). -/

def leaf (n : String) (ps : List String) : OurType :=
  .cls { name := Text.ofString n, abstract := false, hasDesc := false, used := false,
         props := ps.map Text.ofString, ownProps := ps.map Text.ofString, methods := [] }

/-- constants `Some_const` / `Some_Const` (F1 F4 F7 F13 F20 F25), functions `matches_x` / `matches_X` (F2 F5 F8 F14
F21 F26), constrained primitives `Some_thing` / `Some_Thing` (F31–F37): all six SDK targets. -/
example : ∀ t ∈ sdkTargets,
    isErr (verify t { types := [leaf "Something" ["x"]], consts := [Text.ofString "Some_const", Text.ofString "Some_Const"], funcs := [] }) = true
    ∧ isErr (verify t { types := [leaf "Something" ["x"]], consts := [], funcs := [Text.ofString "matches_x", Text.ofString "matches_X"] }) = true
    ∧ isErr (verify t { types := [.cprim (Text.ofString "Some_thing"), .cprim (Text.ofString "Some_Thing"), leaf "Holder" ["a"]], consts := [], funcs := [] }) = true := by
  decide

/-- enumeration literals `Red_one` / `Red_One` in C# and Java (F6 F15); `_url` / `URL` in Java and TypeScript (F16 F17
F27) and `url` / `URL` in Golang (F9); the functions `_matches_x` / `matches_x` in Java and TypeScript. -/
example :
    (∀ t ∈ ["csharp", "java"], isErr (verify t
      { types := [.enum { name := Text.ofString "Color", used := false, literals := [Text.ofString "Red_one", Text.ofString "Red_One"] },
                  leaf "Something" ["x"]], consts := [], funcs := [] }) = true)
    ∧ (∀ t ∈ ["java", "typescript"], isErr (verify t { types := [leaf "Thing" ["_url", "URL"]], consts := [], funcs := [] }) = true)
    ∧ isErr (verify "golang" { types := [leaf "Thing" ["url", "URL"]], consts := [], funcs := [] }) = true
    ∧ (∀ t ∈ ["java", "typescript"], isErr (verify t
        { types := [leaf "Something" ["x"]], consts := [], funcs := [Text.ofString "_matches_x", Text.ofString "matches_x"] }) = true) := by
  decide

/-- names derived from type names (F11 F12 F22 F23 F24), the reserved `ModelType` (F3 F10 F28). -/
example :
    isErr (verify "golang" { types := [.cprim (Text.ofString "Non_empty"), leaf "Non_Empty" ["x"]], consts := [], funcs := [] }) = true
    ∧ (∀ t ∈ ["golang", "python"], isErr (verify t
        { types := [.enum { name := Text.ofString "Color", used := false, literals := [Text.ofString "Red"] },
                    .enum { name := Text.ofString "COLOR", used := false, literals := [Text.ofString "Red"] },
                    leaf "Something" ["x"]], consts := [], funcs := [] }) = true)
    ∧ isErr (verify "python" { types := [leaf "Some_URL" ["x"], leaf "Some_Url" ["y"]], consts := [], funcs := [] }) = true
    ∧ isErr (verify "golang" { types := [leaf "Color" ["x"], leaf "COLOR" ["y"]], consts := [], funcs := [] }) = true
    ∧ (∀ t ∈ ["cpp", "golang", "typescript"], isErr (verify t { types := [leaf "Model__type" ["x"]], consts := [], funcs := [] }) = true)
    ∧ isErr (verify "golang" { types := [leaf "Foo" ["x"], leaf "Model_type_foo" ["y"]], consts := [], funcs := [] }) = true := by
  decide

/-- JSON properties and XSD sequence elements `a__b` / `a_b` (F18 F19 F29), an enumeration and a class that share the
XSD type name `color_t` (F30). -/
example :
    (∀ t ∈ ["jsonschema", "xsd"], isErr (verify t { types := [leaf "Something" ["a__b", "a_b"]], consts := [], funcs := [] }) = true)
    ∧ isErr (verify "xsd"
        { types := [.enum { name := Text.ofString "Color", used := true, literals := [Text.ofString "Red"] },
                    .cls { name := Text.ofString "COLOR", abstract := false, hasDesc := false, used := false,
                           props := [Text.ofString "c"], ownProps := [Text.ofString "c"], methods := [] }],
          consts := [], funcs := [] }) = true := by
  decide

/-! ## Facts about the conversions -/

/-- `json_model_type` on the identifier domain: for every identifier that starts with a capital letter the
function returns normally — neither `Identifier(…)` nor its two `@ensure`s can fire — and the result has no
`_`, no quotes and no backslash (so `<ModelType>_abstract` / `_choice` can never clash with a plain model type). -/
theorem json_model_type_clean (t : Text) (hid : isIdent t = true) (hup : firstIsUpper t = true) :
    ∃ r, jsonModelType t = .ok r ∧ isIdent r = true ∧ 95 ∉ r ∧ 34 ∉ r ∧ 39 ∉ r ∧ 92 ∉ r :=
  jsonModelType_total t hid hup

example : isIdent (Text.ofString "Data_type_IEC_61360") = true ∧ firstIsUpper (Text.ofString "Data_type_IEC_61360") = true ∧
    jsonModelType (Text.ofString "Data_type_IEC_61360") = .ok (Text.ofString "DataTypeIec61360") := by decide

/-- `lower_snake_case` is plain lower-casing, `upper_snake_case` plain upper-casing. -/
theorem lowerSnake_eq (t : Text) : lowerSnake t = identR (lower t) := by
  unfold lowerSnake; rw [lowerSnakeRaw_eq_lower]

theorem upperSnake_eq (t : Text) : upperSnake t = identR (upper t) := by
  unfold upperSnake; rw [upperSnakeRaw_eq_upper]

/-- Collision characterisation for the snake cases: two identifiers collide iff they are equal up to case. -/
theorem lowerSnake_collide_iff (a b : Text) : lowerSnakeRaw a = lowerSnakeRaw b ↔ lower a = lower b := by
  rw [lowerSnakeRaw_eq_lower, lowerSnakeRaw_eq_lower]

theorem upperSnake_collide_iff (a b : Text) : upperSnakeRaw a = upperSnakeRaw b ↔ lower a = lower b := by
  rw [upperSnakeRaw_eq_upper, upperSnakeRaw_eq_upper, upper_eq_iff_lower_eq]

/-- The camel cases are case-insensitive too (so every snake-case collision is also a camel-case one)… -/
theorem capCamel_of_lower_eq (a b : Text) (h : lower a = lower b) : capCamelRaw a = capCamelRaw b := by
  have key : ∀ t, capCamelRaw (lower t) = capCamelRaw t := by
    intro t
    unfold capCamelRaw
    rw [parts_lower, List.map_map]
    congr 1
    apply List.map_congr_left
    intro p _
    exact capitalize_lower p
  rw [← key a, ← key b, h]

theorem map_capitalize_lower (l : List Text) : (l.map lower).map capitalize = l.map capitalize := by
  rw [List.map_map]
  apply List.map_congr_left
  intro p _
  exact capitalize_lower p

theorem lowerCamel_of_lower_eq (a b : Text) (h : lower a = lower b) : lowerCamelRaw a = lowerCamelRaw b := by
  have key : ∀ t, lowerCamelRaw (lower t) = lowerCamelRaw t := by
    intro t
    unfold lowerCamelRaw
    rw [parts_lower]
    cases parts t with
    | nil => rfl
    | cons p ps =>
      cases ps with
      | nil => simp [lower_lower]
      | cons q qs =>
        show lower (lower p) ++ ((List.map lower (q :: qs)).map capitalize).flatten
            = lower p ++ ((q :: qs).map capitalize).flatten
        rw [lower_lower, map_capitalize_lower]
  rw [← key a, ← key b, h]

/-- … but they also drop underscores, so they collide strictly more often: the converse fails. -/
theorem capCamel_collides_more :
    capCamelRaw (Text.ofString "a_1") = capCamelRaw (Text.ofString "a1") ∧
    capCamelRaw (Text.ofString "a__b") = capCamelRaw (Text.ofString "a_b") ∧
    lower (Text.ofString "a_1") ≠ lower (Text.ofString "a1") := by decide

/-- `lower_snake_case` is idempotent. -/
theorem lowerSnake_idem (t : Text) : lowerSnakeRaw (lowerSnakeRaw t) = lowerSnakeRaw t := by
  rw [lowerSnakeRaw_eq_lower, lowerSnakeRaw_eq_lower, lower_lower]

/- The design also asks for `lower_camel_case` idempotent:
   `theorem lowerCamel_idem (t) : lowerCamelRaw (lowerCamelRaw t) = lowerCamelRaw t`.
   False — the second application lower-cases the humps. -/
theorem lowerCamel_idem_fails : ¬ ∀ t : Text, isIdent t = true → lowerCamelRaw (lowerCamelRaw t) = lowerCamelRaw t := by
  intro h
  have := h (Text.ofString "some_URL") (by decide)
  revert this
  decide

theorem splitC_no_sep (sep : Nat) (t : Text) (h : sep ∉ t) : splitC sep t = [t] := by
  induction t with
  | nil => rfl
  | cons c cs ih =>
    have hc : c ≠ sep := fun e => h (e ▸ List.mem_cons_self)
    have hcs : sep ∉ cs := fun e => h (List.mem_cons_of_mem _ e)
    unfold splitC
    simp only [hc, if_false, ih hcs]

/-- `lower_camel_case` is idempotent on names without underscores (where it is `lower`). -/
theorem lowerCamel_idem_partial (t : Text) (h : 95 ∉ t) : lowerCamelRaw (lowerCamelRaw t) = lowerCamelRaw t := by
  have h1 : lowerCamelRaw t = lower t := by
    unfold lowerCamelRaw
    rw [show parts t = [t] from splitC_no_sep 95 t h]
  have h2 : (95 : Nat) ∉ lower t := by
    intro hm
    unfold lower at hm
    obtain ⟨c, hc, hc95⟩ := List.mem_map.mp hm
    exact h (((loC_eq_sep c).mp hc95) ▸ hc)
  rw [h1]
  unfold lowerCamelRaw
  rw [show parts (lower t) = [lower t] from splitC_no_sep 95 (lower t) h2]
  exact lower_lower t

example : (95 : Nat) ∉ Text.ofString "someURL" := by decide

end AasVerif.Props.C21
