import AasVerif.Lemmas.Collide
import AasVerif.Lemmas.Naming
import AasVerif.Lemmas.NamingJson
/-!
# C21 — Distinct meta-model names never collide in generated code

`Collide.verify t mm` is the model of the collision check of target `t`
(`<target>.lib.verify_for_types` for the six SDK targets, the `Definitions.update_for/update` chain of
the JSON-schema generator, the `observed_definitions` loop of the XSD generator); `checkedScopes t mm`
is its scope table (partly regenerated from the source, see `Gen.Naming`), `emittedScopes t mm` adds the
scopes the generators emit into but no check covers.  `scopeNames s` are the generated names of the
entities of scope `s` (`Except.error` = a naming function raises).
-/
namespace AasVerif.Props.C21
open AasVerif AasVerif.Naming AasVerif.Collide

/-! ## The check is sound and complete for its scope table -/

/-- If the check passes, the naming functions are injective on every reported scope
(`verify_ok_injective` of the design). -/
theorem verify_ok_injective (t : String) (mm : MM) (h : verify t mm = .ok ()) :
    ∀ s ∈ checkedScopes t mm, s.reported = true → ∃ ns, scopeNames s = .ok ns ∧ ns.Nodup := by
  obtain ⟨l, hl, hall⟩ := (verify_ok_iff t mm).mp h
  intro s hs hrep
  obtain ⟨ns, h1, h2⟩ := resolve_ok_forward hl s hs
  exact ⟨ns, h1, hall (s, ns) h2 hrep⟩

/-- If two entities of a reported scope get the same generated name, the check does not pass: it
reports a non-empty list of collisions (or a naming function raised) — `verify_complete`. -/
theorem verify_complete (t : String) (mm : MM) (s : Scope) (hs : s ∈ checkedScopes t mm)
    (hrep : s.reported = true) (ns : List Text) (hns : scopeNames s = .ok ns) (hdup : ¬ ns.Nodup) :
    (∃ cs, verify t mm = .err cs ∧ cs ≠ []) ∨ (∃ site, verify t mm = .crash site) := by
  unfold verify
  cases hres : resolve (checkedScopes t mm) with
  | error site => exact Or.inr ⟨site, rfl⟩
  | ok l =>
    left
    simp only
    by_cases hnil : collisionsOf l = []
    · exfalso
      obtain ⟨ns', h1, h2⟩ := resolve_ok_forward hres s hs
      rw [hns] at h1
      cases h1
      exact hdup ((collisionsOf_nil_iff l).mp hnil (s, ns) h2 hrep)
    · exact ⟨collisionsOf l, by rw [if_neg hnil], hnil⟩

/-- No false alarm: an error verdict means that some checked scope really has two entities with the same
generated name. -/
theorem verify_err_sound (t : String) (mm : MM) (cs : List Collision) (h : verify t mm = .err cs) :
    ∃ s ∈ checkedScopes t mm, ∃ ns, scopeNames s = .ok ns ∧ ¬ ns.Nodup := by
  unfold verify at h
  split at h
  · cases h
  · next l hl =>
    split at h
    · cases h
    · next hne =>
      have : ¬ ∀ p ∈ l, p.1.reported = true → p.2.Nodup := fun hall => hne ((collisionsOf_nil_iff l).mpr hall)
      have ⟨p, hp⟩ := Classical.not_forall.mp this
      have ⟨hpl, hp2⟩ := Classical.not_imp.mp hp
      have ⟨_, hp3⟩ := Classical.not_imp.mp hp2
      obtain ⟨h1, h2⟩ := resolve_ok_backward hl p hpl
      exact ⟨p.1, h1, p.2, h2, hp3⟩

/-! ## On the current source every checked scope is reported

`Gen.Naming.intraReturnsError`, `modelTypeChecked`, … are regenerated from the source on every run; with
`_verify_intra_structure_collisions` ending in `return None` (the defect fixed in 555a076f) or the result
of `definitions.update({"ModelType": …})` ignored (546b5563) the `decide`s below fail. -/

/-- The naming functions applied inside `_verify_intra_structure_collisions` (regenerated from the source) are
the ones the generators of that target use for the same members: every property/method loop and, for
cpp/python/typescript, the literal loop are present.  A dropped loop or another naming function in the check
changes `Gen.Naming.intraLoops` and this `decide` no longer closes. -/
theorem intra_loops_pinned : Gen.Naming.intraLoops = [
  ("cpp", [("literal", "cpp.enum_literal_name"), ("prop", "cpp.getter_name"), ("prop", "cpp.mutable_getter_name"), ("prop", "cpp.setter_name"), ("prop", "cpp.private_property_name"), ("method", "cpp.method_name")]),
  ("csharp", [("prop", "csharp.property_name"), ("method", "csharp.method_name")]),
  ("golang", [("prop", "golang.getter_name"), ("prop", "golang.setter_name"), ("method", "golang.method_name")]),
  ("java", [("prop", "java.property_name"), ("method", "java.method_name")]),
  ("python", [("literal", "python.enum_literal_name"), ("prop", "python.property_name"), ("method", "python.method_name")]),
  ("typescript", [("literal", "typescript.enum_literal_name"), ("prop", "typescript.property_name"), ("method", "typescript.method_name")])
] := by decide

theorem intra_reported_all : ∀ t ∈ sdkTargets, intraReported t = true := by decide

theorem schema_checks_present :
    Gen.Naming.jsonDefinitionsChecked = true ∧ Gen.Naming.modelTypeChecked = true ∧
      Gen.Naming.xsdObservedChecked = true := by decide

theorem all_reported (t : String) (mm : MM) : ∀ s ∈ checkedScopes t mm, s.reported = true := by
  intro s hs
  unfold checkedScopes at hs
  split at hs
  · simp only [List.mem_cons, List.mem_nil_iff, or_false] at hs
    rcases hs with rfl | rfl
    · exact schema_checks_present.1
    · show (Gen.Naming.jsonDefinitionsChecked && Gen.Naming.modelTypeChecked) = true
      decide
  · split at hs
    · simp only [List.mem_map] at hs
      obtain ⟨tag, _, rfl⟩ := hs
      exact schema_checks_present.2.2
    · split at hs
      · next hsdk =>
        rcases List.mem_cons.mp hs with rfl | hs
        · rfl
        · unfold intraScopes at hs
          obtain ⟨ot, _, hot⟩ := List.mem_filterMap.mp hs
          have hrep := intra_reported_all t hsdk
          cases ot with
          | enum e =>
            simp only at hot
            split at hot
            · cases hot
            · cases hot; exact hrep
          | cprim n => cases hot
          | cls c => cases hot; exact hrep
      · cases hs

/-- **C21 for the scopes the checks look at** (all eight targets): a passing check means that no two
entities of a checked scope receive the same generated name. -/
theorem C21_checked (t : String) (mm : MM) (h : verify t mm = .ok ()) :
    ∀ s ∈ checkedScopes t mm, ∃ ns, scopeNames s = .ok ns ∧ ns.Nodup :=
  fun s hs => verify_ok_injective t mm h s hs (all_reported t mm s hs)

/-- … and conversely a collision in any checked scope is reported (or the check crashes in a naming
function's `@require`). -/
theorem C21_checked_complete (t : String) (mm : MM) (s : Scope) (hs : s ∈ checkedScopes t mm)
    (ns : List Text) (hns : scopeNames s = .ok ns) (hdup : ¬ ns.Nodup) :
    (∃ cs, verify t mm = .err cs ∧ cs ≠ []) ∨ (∃ site, verify t mm = .crash site) :=
  verify_complete t mm s hs (all_reported t mm s hs) ns hns hdup

/-! ## Full strength: every scope the generators emit into

```
theorem C21_full (t : String) (mm : MM) (h : verify t mm = .ok ()) :
    ∀ s ∈ emittedScopes t mm, ∀ ns, scopeNames s = .ok ns → ns.Nodup
```
is false of the faithful model: constants, verification functions (all SDK targets), enumeration literals
(C#, Java), JSON properties and XSD sequence elements / the shared type symbol space are never checked
(known findings C21-F*).  Negation witness, then the partial theorem whose extra hypothesis is exactly
"no collision in an unchecked scope". -/

def witnessMM : MM :=
  { types := [.cls { name := Text.ofString "Something", abstract := false, hasDesc := false, used := false,
                     props := [Text.ofString "x"], ownProps := [Text.ofString "x"], methods := [] }],
    consts := [Text.ofString "Some_const", Text.ofString "Some_Const"],
    funcs := [] }

theorem C21_full_fails :
    ¬ ∀ (t : String) (mm : MM), verify t mm = .ok () →
        ∀ s ∈ emittedScopes t mm, ∀ ns, scopeNames s = .ok ns → ns.Nodup := by
  intro h
  have h1 : verify "python" witnessMM = .ok () := by decide
  have := h "python" witnessMM h1
    { kind := "constants", owner := [],
      ents := [{ fn := "python.constant_name", ident := Text.ofString "Some_const" },
               { fn := "python.constant_name", ident := Text.ofString "Some_Const" }],
      reported := false }
    (by decide) [Text.ofString "SOME_CONST", Text.ofString "SOME_CONST"] (by decide)
  revert this
  decide

theorem uncheckedCollisions_ok (t : String) (mm : MM) (h : uncheckedCollisions t mm = .ok ()) :
    ∀ s ∈ uncheckedScopes t mm, ∃ ns, scopeNames s = .ok ns ∧ ns.Nodup := by
  unfold uncheckedCollisions at h
  split at h
  · cases h
  · next l hl =>
    simp only at h
    split at h
    · next hnil =>
      intro s hs
      obtain ⟨ns, h1, h2⟩ := resolve_ok_forward hl s hs
      refine ⟨ns, h1, ?_⟩
      rw [List.flatMap_eq_nil_iff] at hnil
      have := hnil (s, ns) h2
      simp only [List.map_eq_nil_iff] at this
      exact (dups_nil_iff ns).mp this
    · cases h

/-- **C21, partial**: when additionally the scopes that no check covers are collision-free
(`uncheckedCollisions t mm = .ok ()`, a decidable predicate evaluated by the driver), a passing check means
that no two entities of any emitted scope share a generated name. -/
theorem C21_partial (t : String) (mm : MM) (h : verify t mm = .ok ())
    (hun : uncheckedCollisions t mm = .ok ()) :
    ∀ s ∈ emittedScopes t mm, ∃ ns, scopeNames s = .ok ns ∧ ns.Nodup := by
  intro s hs
  unfold emittedScopes at hs
  rcases List.mem_append.mp hs with hs | hs
  · exact C21_checked t mm h s hs
  · exact uncheckedCollisions_ok t mm hun s hs

/-- Non-vacuity: a model with two enumerations, a hierarchy, constants and functions passes both. -/
def sampleMM : MM :=
  { types := [.enum { name := Text.ofString "Color_kind", used := true, literals := [Text.ofString "Red_one", Text.ofString "Green"] },
              .cls { name := Text.ofString "Base_thing", abstract := true, hasDesc := true, used := false,
                     props := [Text.ofString "base_prop"], ownProps := [Text.ofString "base_prop"], methods := [] },
              .cls { name := Text.ofString "Leaf_thing", abstract := false, hasDesc := false, used := false,
                     props := [Text.ofString "base_prop", Text.ofString "some_URL"], ownProps := [Text.ofString "some_URL"],
                     methods := [Text.ofString "do_it"] }],
    consts := [Text.ofString "Some_const"], funcs := [Text.ofString "matches_something"] }

example : ∀ t ∈ targets, verify t sampleMM = .ok () ∧ uncheckedCollisions t sampleMM = .ok () := by decide

/-- … and the checks do fire: `some_Url` / `some_url` collide in all six SDK targets (`some_URL` would not in Go, which keeps abbreviations). -/
def collidingMM : MM :=
  { types := [.cls { name := Text.ofString "Something", abstract := false, hasDesc := false, used := false,
                     props := [Text.ofString "some_Url", Text.ofString "some_url"], ownProps := [], methods := [] }],
    consts := [], funcs := [] }

def isErr : Res (List Collision) Unit → Bool
  | .err _ => true
  | _ => false

example : ∀ t ∈ sdkTargets, isErr (verify t collidingMM) = true := by decide

/-! ## Facts about the conversions -/

/-- `json_model_type` on the identifier domain: for every identifier that starts with a capital letter the
function returns normally — neither `Identifier(…)` nor its two `@ensure`s can fire — and the result has no
`_`, no quotes and no backslash (so `<ModelType>_abstract` / `_choice` can never clash with a plain model type). -/
theorem json_model_type_clean (t : Text) (hid : isIdent t = true) (hup : firstIsUpper t = true) :
    ∃ r, jsonModelType t = .ok r ∧ isIdent r = true ∧ 95 ∉ r ∧ 34 ∉ r ∧ 39 ∉ r ∧ 92 ∉ r :=
  jsonModelType_total t hid hup

example : isIdent (Text.ofString "Data_type_IEC_61360") = true ∧ firstIsUpper (Text.ofString "Data_type_IEC_61360") = true ∧
    jsonModelType (Text.ofString "Data_type_IEC_61360") = .ok (Text.ofString "DataTypeIec61360") := by decide

/-- `lower_snake_case` is plain lower-casing, `upper_snake_case` plain upper-casing. -/
theorem lowerSnake_eq (t : Text) : lowerSnake t = identR (lower t) := by
  unfold lowerSnake; rw [lowerSnakeRaw_eq_lower]

theorem upperSnake_eq (t : Text) : upperSnake t = identR (upper t) := by
  unfold upperSnake; rw [upperSnakeRaw_eq_upper]

/-- Collision characterisation for the snake cases: two identifiers collide iff they are equal up to case. -/
theorem lowerSnake_collide_iff (a b : Text) : lowerSnakeRaw a = lowerSnakeRaw b ↔ lower a = lower b := by
  rw [lowerSnakeRaw_eq_lower, lowerSnakeRaw_eq_lower]

theorem upperSnake_collide_iff (a b : Text) : upperSnakeRaw a = upperSnakeRaw b ↔ lower a = lower b := by
  rw [upperSnakeRaw_eq_upper, upperSnakeRaw_eq_upper, upper_eq_iff_lower_eq]

/-- The camel cases are case-insensitive too (so every snake-case collision is also a camel-case one)… -/
theorem capCamel_of_lower_eq (a b : Text) (h : lower a = lower b) : capCamelRaw a = capCamelRaw b := by
  have key : ∀ t, capCamelRaw (lower t) = capCamelRaw t := by
    intro t
    unfold capCamelRaw
    rw [parts_lower, List.map_map]
    congr 1
    apply List.map_congr_left
    intro p _
    exact capitalize_lower p
  rw [← key a, ← key b, h]

theorem map_capitalize_lower (l : List Text) : (l.map lower).map capitalize = l.map capitalize := by
  rw [List.map_map]
  apply List.map_congr_left
  intro p _
  exact capitalize_lower p

theorem lowerCamel_of_lower_eq (a b : Text) (h : lower a = lower b) : lowerCamelRaw a = lowerCamelRaw b := by
  have key : ∀ t, lowerCamelRaw (lower t) = lowerCamelRaw t := by
    intro t
    unfold lowerCamelRaw
    rw [parts_lower]
    cases parts t with
    | nil => rfl
    | cons p ps =>
      cases ps with
      | nil => simp [lower_lower]
      | cons q qs =>
        show lower (lower p) ++ ((List.map lower (q :: qs)).map capitalize).flatten
            = lower p ++ ((q :: qs).map capitalize).flatten
        rw [lower_lower, map_capitalize_lower]
  rw [← key a, ← key b, h]

/-- … but they also drop underscores, so they collide strictly more often: the converse fails. -/
theorem capCamel_collides_more :
    capCamelRaw (Text.ofString "a_1") = capCamelRaw (Text.ofString "a1") ∧
    capCamelRaw (Text.ofString "a__b") = capCamelRaw (Text.ofString "a_b") ∧
    lower (Text.ofString "a_1") ≠ lower (Text.ofString "a1") := by decide

/-- `lower_snake_case` is idempotent. -/
theorem lowerSnake_idem (t : Text) : lowerSnakeRaw (lowerSnakeRaw t) = lowerSnakeRaw t := by
  rw [lowerSnakeRaw_eq_lower, lowerSnakeRaw_eq_lower, lower_lower]

/- The design also asks for `lower_camel_case` idempotent:
   `theorem lowerCamel_idem (t) : lowerCamelRaw (lowerCamelRaw t) = lowerCamelRaw t`.
   False — the second application lower-cases the humps. -/
theorem lowerCamel_idem_fails : ¬ ∀ t : Text, isIdent t = true → lowerCamelRaw (lowerCamelRaw t) = lowerCamelRaw t := by
  intro h
  have := h (Text.ofString "some_URL") (by decide)
  revert this
  decide

theorem splitC_no_sep (sep : Nat) (t : Text) (h : sep ∉ t) : splitC sep t = [t] := by
  induction t with
  | nil => rfl
  | cons c cs ih =>
    have hc : c ≠ sep := fun e => h (e ▸ List.mem_cons_self)
    have hcs : sep ∉ cs := fun e => h (List.mem_cons_of_mem _ e)
    unfold splitC
    simp only [hc, if_false, ih hcs]

/-- `lower_camel_case` is idempotent on names without underscores (where it is `lower`). -/
theorem lowerCamel_idem_partial (t : Text) (h : 95 ∉ t) : lowerCamelRaw (lowerCamelRaw t) = lowerCamelRaw t := by
  have h1 : lowerCamelRaw t = lower t := by
    unfold lowerCamelRaw
    rw [show parts t = [t] from splitC_no_sep 95 t h]
  have h2 : (95 : Nat) ∉ lower t := by
    intro hm
    unfold lower at hm
    obtain ⟨c, hc, hc95⟩ := List.mem_map.mp hm
    exact h (((loC_eq_sep c).mp hc95) ▸ hc)
  rw [h1]
  unfold lowerCamelRaw
  rw [show parts (lower t) = [lower t] from splitC_no_sep 95 (lower t) h2]
  exact lower_lower t

example : (95 : Nat) ∉ Text.ofString "someURL" := by decide

end AasVerif.Props.C21
