import AasVerif.Model.FrontEnd
/-!
# C01 — Meta-model front end never crashes (modelled cores)

Proved here: positional-argument unpacking of `constant_set` / `constant_*` never indexes
out of range (for every number of arguments), and `load_model`'s stage composition returns
exactly one of (table, non-empty report).  Totality of the regex parser is `Props/C16`.
The rest of the ~9 kLoC rule code is explored by the crash oracle, not proved.
-/
namespace AasVerif.Props.C01
open AasVerif AasVerif.FrontEnd

/-- If every read index lies below its guard, no argument count makes a read go out of range. -/
theorem readArgs_never_crashes (reads : List (Nat × Nat)) (h : ∀ p ∈ reads, p.2 < p.1) :
    ∀ n, ∃ l, readArgs n reads = .ok l := by
  intro n
  induction reads with
  | nil => exact ⟨[], rfl⟩
  | cons p rest ih =>
    obtain ⟨g, i⟩ := p
    obtain ⟨l, hl⟩ := ih (fun q hq => h q (by simp [hq]))
    have hgi : i < g := h (g, i) (by simp)
    unfold readArgs
    by_cases hn : n ≥ g
    · have : i < n := by omega
      simp [hn, this, hl]
    · simp [hn, hl]

/-- *Table* over the regenerated reads of the current source. -/
theorem constant_reads_guarded :
    (Gen.FrontEnd.constantSetArgReads.all (fun p => decide (p.2 < p.1)) &&
     Gen.FrontEnd.constantPrimitiveArgReads.all (fun p => decide (p.2 < p.1))) = true := by decide

theorem constant_set_args_never_crash (n : Nat) :
    ∃ l, readArgs n Gen.FrontEnd.constantSetArgReads = .ok l :=
  readArgs_never_crashes _ (by decide) n

theorem constant_primitive_args_never_crash (n : Nat) :
    ∃ l, readArgs n Gen.FrontEnd.constantPrimitiveArgReads = .ok l :=
  readArgs_never_crashes _ (by decide) n

/-- The converse direction, to show the guard condition is what matters: a read at or above
its guard crashes for the argument count equal to the guard (the defect that was fixed:
`args[3]` under `len(args) > 2`). -/
theorem readArgs_crashes_example : readArgs 3 [(1, 0), (2, 1), (3, 3), (4, 4)] = .crash 3 := by decide

/-- `load_model` returns the table exactly when every stage succeeds … -/
theorem load_table_iff (ok : String → Bool) (report : String → Text) (stages : List String) :
    load ok report stages = .table ↔ ∀ s ∈ stages, ok s = true := by
  induction stages with
  | nil => simp [load]
  | cons s rest ih =>
    unfold load
    by_cases h : ok s = true <;> simp [h, ih]

/-- … and otherwise the report of the first failing stage — never both, never neither
(the `@ensure` of `load_model` cannot fire). -/
theorem load_error_is_first_failure (ok : String → Bool) (report : String → Text)
    (stages : List String) (m : Text) (h : load ok report stages = .error m) :
    ∃ s ∈ stages, ok s = false ∧ m = report s := by
  induction stages with
  | nil => simp [load] at h
  | cons s rest ih =>
    unfold load at h
    by_cases hs : ok s = true
    · simp [hs] at h
      obtain ⟨t, ht, h1, h2⟩ := ih h
      exact ⟨t, by simp [ht], h1, h2⟩
    · simp [hs] at h
      exact ⟨s, by simp, by simpa using hs, h.symm⟩

/-- Every report rendered by `write_error_report` is non-empty, so the error half of the pair
is a non-empty text. -/
theorem report_nonempty (m : Text) (es : List Text) : Report.body m es ≠ [] := by
  simp [Report.body]

/-- *Table*: the skeleton of the current `load_model`: its stages, the final `(table, None)`
return, the xor `@ensure`, and no error string that bypasses `write_error_report`. -/
theorem load_model_skeleton :
    Gen.FrontEnd.loadModelStages =
      ["parse.source_to_atok", "parse.check_expected_imports", "parse.atok_to_symbol_table",
       "intermediate.translate"] ∧
    Gen.FrontEnd.loadModelEndsOk = true ∧ Gen.FrontEnd.loadModelEnsuresXor = true ∧
    Gen.FrontEnd.loadModelBareErrorReturns = 0 := by decide

/-- With every stage under the recursion guard, `load_model` never lets a `RecursionError` escape, whatever the
stages do … -/
theorem loadG_never_crashes (guarded : String → Bool) (res : String → StageOut) (report : String → Text)
    (tooDeep : Text) (stages : List String) (h : ∀ s ∈ stages, guarded s = true) :
    loadG guarded res report tooDeep stages ≠ .crash := by
  induction stages with
  | nil => simp [loadG]
  | cons s rest ih =>
    have hs : guarded s = true := h s (by simp)
    have hr : ∀ t ∈ rest, guarded t = true := fun t ht => h t (by simp [ht])
    unfold loadG
    cases hres : res s <;> simp [hs, ih hr]

/-- … the hypothesis is needed: an unguarded stage that overflows is a crash (the pinned tree before the repair,
known finding C01-F1). -/
theorem loadG_unguarded_crashes_example :
    loadG (fun _ => false) (fun s => if s == "b" then .overflow else .ok) (fun s => Text.ofString s) [] ["a", "b", "c"]
      = .crash := by decide

example : (∀ s ∈ ["a", "b"], (fun _ : String => true) s = true) := by simp

/-- Without overflows the guarded composition is the plain one. -/
theorem loadG_without_overflow (guarded : String → Bool) (ok : String → Bool) (report : String → Text)
    (tooDeep : Text) (stages : List String) :
    loadG guarded (fun s => if ok s then .ok else .failed) report tooDeep stages =
      (match load ok report stages with
       | .table => .table
       | .error m => .error m) := by
  induction stages with
  | nil => simp [loadG, load]
  | cons s rest ih =>
    unfold loadG load
    by_cases h : ok s = true <;> simp [h, ih]

/-- *Table*: every stage of the current `load_model` runs under `except RecursionError` (regenerated from run.py). -/
theorem load_model_recursion_guarded :
    ∀ s ∈ Gen.FrontEnd.loadModelStages, Gen.FrontEnd.loadModelRecursionGuardedStages.contains s = true := by decide

/-- Hence the current `load_model` turns an input nested beyond the recursion limit into an error report. -/
theorem load_model_never_crashes_on_deep_input (res : String → StageOut) (report : String → Text) (tooDeep : Text) :
    loadG (fun s => Gen.FrontEnd.loadModelRecursionGuardedStages.contains s) res report tooDeep
      Gen.FrontEnd.loadModelStages ≠ .crash :=
  loadG_never_crashes _ res report tooDeep _ load_model_recursion_guarded

end AasVerif.Props.C01
