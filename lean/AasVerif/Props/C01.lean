import AasVerif.Model.FrontEnd
/-!
# C01 — Meta-model front end never crashes (modelled cores)

Proved here: positional-argument unpacking of `constant_set` / `constant_*` never indexes
out of range (for every number of arguments), and `load_model`'s stage composition returns
exactly one of (table, non-empty report).  Totality of the regex parser is `Props/C16`.
The rest of the ~9 kLoC rule code is explored by the crash oracle, not proved.
-/
namespace AasVerif.Props.C01
open AasVerif AasVerif.FrontEnd

/-- If every read index lies below its guard, no argument count makes a read go out of range. -/
theorem readArgs_never_crashes (reads : List (Nat × Nat)) (h : ∀ p ∈ reads, p.2 < p.1) :
    ∀ n, ∃ l, readArgs n reads = .ok l := by
  intro n
  induction reads with
  | nil => exact ⟨[], rfl⟩
  | cons p rest ih =>
    obtain ⟨g, i⟩ := p
    obtain ⟨l, hl⟩ := ih (fun q hq => h q (by simp [hq]))
    have hgi : i < g := h (g, i) (by simp)
    unfold readArgs
    by_cases hn : n ≥ g
    · have : i < n := by omega
      simp [hn, this, hl]
    · simp [hn, hl]

/-- *Table* over the regenerated reads of the current source. -/
theorem constant_reads_guarded :
    (Gen.FrontEnd.constantSetArgReads.all (fun p => decide (p.2 < p.1)) &&
     Gen.FrontEnd.constantPrimitiveArgReads.all (fun p => decide (p.2 < p.1))) = true := by decide

theorem constant_set_args_never_crash (n : Nat) :
    ∃ l, readArgs n Gen.FrontEnd.constantSetArgReads = .ok l :=
  readArgs_never_crashes _ (by decide) n

theorem constant_primitive_args_never_crash (n : Nat) :
    ∃ l, readArgs n Gen.FrontEnd.constantPrimitiveArgReads = .ok l :=
  readArgs_never_crashes _ (by decide) n

/-- The converse direction, to show the guard condition is what matters: a read at or above
its guard crashes for the argument count equal to the guard (the defect that was fixed:
`args[3]` under `len(args) > 2`). -/
theorem readArgs_crashes_example : readArgs 3 [(1, 0), (2, 1), (3, 3), (4, 4)] = .crash 3 := by decide

/-- `load_model` returns the table exactly when every stage succeeds … -/
theorem load_table_iff (ok : String → Bool) (report : String → Text) (stages : List String) :
    load ok report stages = .table ↔ ∀ s ∈ stages, ok s = true := by
  induction stages with
  | nil => simp [load]
  | cons s rest ih =>
    unfold load
    by_cases h : ok s = true <;> simp [h, ih]

/-- … and otherwise the report of the first failing stage — never both, never neither
(the `@ensure` of `load_model` cannot fire). -/
theorem load_error_is_first_failure (ok : String → Bool) (report : String → Text)
    (stages : List String) (m : Text) (h : load ok report stages = .error m) :
    ∃ s ∈ stages, ok s = false ∧ m = report s := by
  induction stages with
  | nil => simp [load] at h
  | cons s rest ih =>
    unfold load at h
    by_cases hs : ok s = true
    · simp [hs] at h
      obtain ⟨t, ht, h1, h2⟩ := ih h
      exact ⟨t, by simp [ht], h1, h2⟩
    · simp [hs] at h
      exact ⟨s, by simp, by simpa using hs, h.symm⟩

/-- Every report rendered by `write_error_report` is non-empty, so the error half of the pair
is a non-empty text. -/
theorem report_nonempty (m : Text) (es : List Text) : Report.body m es ≠ [] := by
  simp [Report.body]

/-- *Table*: the skeleton of the current `load_model`: its stages, the final `(table, None)`
return, the xor `@ensure`, and no error string that bypasses `write_error_report`. -/
theorem load_model_skeleton :
    Gen.FrontEnd.loadModelStages =
      ["parse.source_to_atok", "parse.check_expected_imports", "parse.atok_to_symbol_table",
       "intermediate.translate"] ∧
    Gen.FrontEnd.loadModelEndsOk = true ∧ Gen.FrontEnd.loadModelEnsuresXor = true ∧
    Gen.FrontEnd.loadModelBareErrorReturns = 0 := by decide

end AasVerif.Props.C01
