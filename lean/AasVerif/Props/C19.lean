import AasVerif.Lemmas.Lit.Cs
import AasVerif.Lemmas.Lit.Go
import AasVerif.Lemmas.Lit.Py
import AasVerif.Lemmas.Lit.Cpp
import AasVerif.Lemmas.Lit.CppN
import AasVerif.Lemmas.Lit.Ts
import AasVerif.Lemmas.Lit.Java
import AasVerif.Lemmas.Lit.Wchar
import AasVerif.Lemmas.Lit.Bytes
import AasVerif.Lemmas.Lit.BytesB
/-!
# C19 — Emitted literals denote exactly the original values

For each target: the literal produced by the model of `<target>/common.py:string_literal` (tied to
the source by Gen tables + correspondence) is read back by the language's literal reader
(`Lit.dec_*`, written from the language specification and validated against the real tool-chain
where one exists) as exactly the original value; where the language cannot represent the value the
encoder returns an error.  `needs_escaping s ↔ literal ≠ quote ++ s ++ quote`.

Values: Python and C++ wide literals denote code points; C#, Java, TypeScript denote UTF-16 code
units (`flatMap utf16cp`); Go and C++ narrow literals denote bytes (`flatMap utf8cp`).
A `Text` is a Python `str` iff all its elements are `< 0x110000` (hypothesis `hs`).
-/
namespace AasVerif.Props.C19
open AasVerif AasVerif.Lit

/-! ## C# -/

/-- Every string: the C# literal is emitted (no error) and denotes the UTF-16 form of the string. -/
theorem cs_roundtrip (s : Text) (hs : ∀ c ∈ s, c < 0x110000) :
    ∃ lit, enc_cs s = .ok lit ∧ dec_cs lit = some (s.flatMap utf16cp) := by
  refine ⟨[34] ++ s.flatMap escCs ++ [34], ?_, ?_⟩
  · unfold enc_cs stripped
    rw [isStripped_quoted 34 _ (by decide)]; rfl
  · have hst : storable ([34] ++ s.flatMap escCs ++ [34]) = true :=
      storable_wrap _ _ _ (okSrc_list_small _ (by decide))
        (okSrc_flatMap escCs _ cs_okSrc s hs) (okSrc_list_small _ (by decide))
    unfold dec_cs
    rw [if_pos hst]
    have hr := run_of_runs (runs_flatMap stepCs escCs utf16cp [34] (· < 0x110000)
      (fun c tail v hc h => cs_char c tail v hc h) (Runs.done (by simp [stepCs])) s hs)
    simpa using hr

/-- `needs_escaping(s)` is exactly "the literal is not just the quoted text". -/
theorem cs_needs_escaping_iff (s : Text) :
    needs_cs s = true ↔ enc_cs s ≠ .ok ([34] ++ s ++ [34]) := by
  have henc : enc_cs s = .ok ([34] ++ s.flatMap escCs ++ [34]) := by
    unfold enc_cs stripped
    rw [isStripped_quoted 34 _ (by decide)]; rfl
  rw [henc]
  have := flatMap_eq_self_iff escCs needsCharCs cs_needs_false cs_needs_true s
  unfold needs_cs
  constructor
  · intro hn heq
    simp only [Res.ok.injEq, List.cons_append, List.nil_append, List.cons.injEq, true_and,
      List.append_cancel_right_eq] at heq
    rw [this.1 heq] at hn; exact absurd hn (by decide)
  · intro hne
    cases hb : s.any needsCharCs with
    | true => rfl
    | false => exact absurd (by rw [this.2 hb]) hne

example : enc_cs [0x2028, 0xD800, 97, 0x1F600] = .ok (Text.ofString "\"\\u2028\\ud800a" ++ [0x1F600, 34]) := by decide
example : dec_cs (Text.ofString "\"\\u2028\\ud800a" ++ [0x1F600, 34]) = some [0x2028, 0xD800, 97, 0xD83D, 0xDE00] := by decide

/-! ## Go

A Go string is a byte sequence; a literal denotes the UTF-8 encoding of the text. Lone surrogates
have no UTF-8 encoding: for them the encoder must report an error (`go_error_outside`). -/

/-- In the domain (no surrogate code points): the literal is emitted and denotes the UTF-8 bytes. -/
theorem go_roundtrip (s : Text) (hs : ∀ c ∈ s, goDom c) :
    ∃ lit, enc_go s = .ok lit ∧ dec_go lit = some (s.flatMap utf8cp) := by
  refine ⟨[34] ++ s.flatMap escGoT ++ [34], enc_go_ok s hs, ?_⟩
  have hst : storable ([34] ++ s.flatMap escGoT ++ [34]) = true :=
    storable_wrap _ _ _ (okSrc_list_small _ (by decide))
      (okSrc_flatMap escGoT _ go_okSrc s hs) (okSrc_list_small _ (by decide))
  unfold dec_go
  rw [if_pos hst]
  have hr := run_of_runs (runs_flatMap stepGo escGoT utf8cp [34] goDom
    (fun c tail v hc h => go_char c tail v hc h) (Runs.done (by simp [stepGo])) s hs)
  simpa using hr

/-- Outside the domain the generator reports an error instead of emitting a wrong literal. -/
theorem go_error_outside (s : Text) (h : ∃ c ∈ s, 0xD800 ≤ c ∧ c ≤ 0xDFFF) :
    enc_go s = .err "ValueError" := by
  unfold enc_go
  obtain ⟨c, hc, hsur⟩ := h
  rw [mapRes_err escGo "ValueError" s go_err_site ⟨c, hc, _, go_err_of_surrogate c hsur⟩]

theorem go_needs_escaping_iff (s : Text) (hs : ∀ c ∈ s, goDom c) :
    needs_go s = true ↔ enc_go s ≠ .ok ([34] ++ s ++ [34]) := by
  rw [enc_go_ok s hs]
  have := flatMap_eq_self_iff escGoT needsCharGo go_needs_false go_needs_true s
  unfold needs_go
  constructor
  · intro hn heq
    simp only [Res.ok.injEq, List.cons_append, List.nil_append, List.cons.injEq, true_and,
      List.append_cancel_right_eq] at heq
    rw [this.1 heq] at hn; exact absurd hn (by decide)
  · intro hne
    cases hb : s.any needsCharGo with
    | true => rfl
    | false => exact absurd (by rw [this.2 hb]) hne

example : goDom 0x1F600 ∧ goDom 1 ∧ goDom 255 := by unfold goDom; omega
example : enc_go [1, 49, 0x1F600] = .ok (Text.ofString "\"\\x011\\U0001f600\"") := by decide
example : dec_go (Text.ofString "\"\\x011\\U0001f600\"") = some [1, 49, 0xF0, 0x9F, 0x98, 0x80] := by decide
example : enc_go [97, 0xD800] = .err "ValueError" := by decide

/-! ## Python

`string_literal(text, quoting)` with the enclosing quotes and without curly-bracket duplication,
for each of the three `quoting` arguments (`None` = fewer escapes). The reader is the one of
short (single-line) `str` literals; the source restrictions (UTF-8, no NUL) are part of it. -/

/-- Every Python string: the literal is emitted and evaluates to exactly the string. -/
theorem py_roundtrip (quoting : PyQuoting) (s : Text) (hs : ∀ c ∈ s, c < 0x110000) :
    ∃ lit, enc_py quoting false false s = .ok lit ∧ dec_py false lit = some s := by
  unfold enc_py
  simp only [Bool.false_eq_true, if_false]
  cases hsingle : pyUsesSingle quoting s with
  | true =>
    refine ⟨[39] ++ s.flatMap (pyEscChar Gen.Lit.pySingle) ++ [39], ?_, ?_⟩
    · simp only [if_true, pyTable, stripped]
      rw [isStripped_quoted 39 _ (by decide)]; rfl
    · exact py_dec 39 _ (Or.inl ⟨rfl, rfl⟩) s hs
  | false =>
    refine ⟨[34] ++ s.flatMap (pyEscChar Gen.Lit.pyDouble) ++ [34], ?_, ?_⟩
    · simp only [Bool.false_eq_true, if_false, pyTable, stripped]
      rw [isStripped_quoted 34 _ (by decide)]; rfl
    · exact py_dec 34 _ (Or.inr ⟨rfl, rfl⟩) s hs

example : enc_py .none false false [0, 39, 0xDC00, 10] = .ok (Text.ofString "\"\\x00'\\udc00\\n\"") := by decide
example : dec_py false (Text.ofString "\"\\x00'\\udc00\\n\"") = some [0, 39, 0xDC00, 10] := by decide
/-- the reader rejects what the unfixed generator emitted: a raw NUL, a raw lone surrogate -/
example : dec_py false [39, 0, 39] = none ∧ dec_py false [39, 0xD800, 39] = none := by decide

/-! ## C++

Wide literals (`std::wstring`, `wchar_t` = 32 bit as with g++ on Linux) denote the code points;
narrow literals are defined for ASCII text only (the `@require` of `string_literal`). The reader
implements the greedy `\x` escape and the concatenation of adjacent literals, which the generator
uses for surrogate code points (`L"\xd800" L"…"`). -/

theorem cppw_roundtrip (s : Text) (hs : ∀ c ∈ s, c < 0x110000) :
    ∃ lit, enc_cppw s = .ok lit ∧ dec_cppw lit = some s := by
  refine ⟨[76, 34] ++ s.flatMap escCppW ++ [34], ?_, ?_⟩
  · unfold enc_cppw stripped
    rw [show ([76, 34] ++ s.flatMap escCppW ++ [34] : Text) = 76 :: [34] ++ s.flatMap escCppW ++ [34] from rfl,
      isStripped_wrap 76 34 [34] _ (by decide) (by decide)]; rfl
  · have hst : storable ([76, 34] ++ s.flatMap escCppW ++ [34]) = true :=
      storable_wrap _ _ _ (okSrc_list_small _ (by decide))
        (okSrc_flatMap escCppW _ cppw_okSrc s hs) (okSrc_list_small _ (by decide))
    unfold dec_cppw
    rw [if_pos hst]
    have hr := run_of_runs (runs_flatMap (stepCpp true 34) escCppW (fun c => [c]) [34] (· < 0x110000)
      (fun c tail v hc h => cppw_char c tail v hc h) (Runs.done (by simp [stepCpp, skipWs])) s hs)
    rw [flatMap_single] at hr
    simpa using hr

/-- The narrow `string_literal` (after the repair of C02-F2): for every text of scalar values the literal is emitted
and denotes the UTF-8 bytes of the text — ASCII as itself / simple / octal escapes, everything else as the octal
escapes of its UTF-8 bytes (fixed width, so a following digit is never swallowed). -/
theorem cppn_roundtrip (s : Text) (hs : ∀ c ∈ s, okSrc c) :
    ∃ lit, enc_cppn s = .ok lit ∧ dec_cppn lit = some (s.flatMap utf8cp) := by
  refine ⟨[34] ++ s.flatMap escCppNT ++ [34], enc_cppn_ok s hs, ?_⟩
  have hst : storable ([34] ++ s.flatMap escCppNT ++ [34]) = true :=
    storable_wrap _ _ _ (okSrc_list_small _ (by decide))
      (okSrc_flatMap escCppNT _ cppn_okSrc s hs) (okSrc_list_small _ (by decide))
  unfold dec_cppn
  rw [if_pos hst]
  have hr := run_of_runs (runs_flatMap (stepCpp false 34) escCppNT utf8cp [34] okSrc
    (fun c tail v hc h => cppn_char_all c tail v hc h) (Runs.done (by simp [stepCpp, skipWs])) s hs)
  simpa using hr

/-- ASCII text denotes itself (the statement before the repair, now a corollary). -/
theorem cppn_roundtrip_ascii (s : Text) (hs : ∀ c ∈ s, c ≤ 127) :
    ∃ lit, enc_cppn s = .ok lit ∧ dec_cppn lit = some s := by
  obtain ⟨lit, h1, h2⟩ := cppn_roundtrip s (fun c hc => okSrc_small (by have := hs c hc; omega))
  refine ⟨lit, h1, ?_⟩
  rw [h2]
  congr 1
  clear h1 h2 lit
  induction s with
  | nil => rfl
  | cons c s ih =>
    have hc : c < 128 := by have := hs c (by simp); omega
    simp only [List.flatMap_cons, utf8cp, if_pos hc, List.cons_append, List.nil_append]
    rw [ih (fun x hx => hs x (by simp [hx]))]

/-- A surrogate code point has no UTF-8 encoding: the generator raises instead of emitting a wrong literal. -/
theorem cppn_error_outside (s : Text) (h : ∃ c ∈ s, 0xD800 ≤ c ∧ c ≤ 0xDFFF) :
    enc_cppn s = .err "ValueError" := by
  unfold enc_cppn
  obtain ⟨c, hc, hsur⟩ := h
  rw [mapRes_err escCppN "ValueError" s cppn_err_site ⟨c, hc, _, cppn_err_of_surrogate c hsur⟩]

theorem cpp_needs_escaping_iff (s : Text) :
    needs_cpp s = true ↔ enc_cppw s ≠ .ok ([76, 34] ++ s ++ [34]) := by
  have henc : enc_cppw s = .ok ([76, 34] ++ s.flatMap escCppW ++ [34]) := by
    unfold enc_cppw stripped
    rw [show ([76, 34] ++ s.flatMap escCppW ++ [34] : Text) = 76 :: [34] ++ s.flatMap escCppW ++ [34] from rfl,
      isStripped_wrap 76 34 [34] _ (by decide) (by decide)]; rfl
  rw [henc]
  have := flatMap_eq_self_iff escCppW needsCharCpp cpp_needs_false cpp_needs_true s
  have hn : needs_cpp s = s.any needsCharCpp := rfl
  rw [hn]
  constructor
  · intro hn heq
    simp only [Res.ok.injEq, List.cons_append, List.nil_append, List.cons.injEq, true_and,
      List.append_cancel_right_eq] at heq
    rw [this.1 heq] at hn; exact absurd hn (by decide)
  · intro hne
    cases hb : s.any needsCharCpp with
    | true => rfl
    | false => exact absurd (by rw [this.2 hb]) hne

example : enc_cppw [1, 49, 0xD800, 97, 0xE9, 0x4E2D] =
    .ok (Text.ofString "L\"\\0011\\xd800\" L\"a\\351\\u4e2d\"") := by decide
example : dec_cppw (Text.ofString "L\"\\0011\\xd800\" L\"a\\351\\u4e2d\"") = some [1, 49, 0xD800, 97, 0xE9, 0x4E2D] := by decide
/-- what the unfixed generator emitted for "\x01" + "1": one merged escape -/
example : dec_cppw (Text.ofString "L\"\\x11\"") = some [0x11] := by decide
example : dec_cppw (Text.ofString "L\"\\ud800\"") = none := by decide

/-! ## TypeScript (read with the ECMAScript 2019+ rules): double-quoted and template forms

`in_backticks=True` escapes a `$` only when `{` follows; the template reader treats `${` as the
start of a substitution (not a literal), so the look-ahead of the encoder is part of the proof. -/

theorem tsq_roundtrip (s : Text) (hs : ∀ c ∈ s, c < 0x110000) :
    ∃ lit, enc_ts false false s = .ok lit ∧ dec_tsq lit = some (s.flatMap utf16cp) := by
  refine ⟨[34] ++ tsBody false s ++ [34], ?_, ?_⟩
  · unfold enc_ts
    simp only [Bool.false_eq_true, if_false, Bool.not_false, if_true, stripped]
    rw [isStripped_quoted 34 _ (by decide)]; rfl
  · rw [tsBody_false]
    have hst : storable ([34] ++ s.flatMap (fun c => escTs false c none) ++ [34]) = true :=
      storable_wrap _ _ _ (okSrc_list_small _ (by decide))
        (okSrc_flatMap _ _ tsq_okSrc s hs) (okSrc_list_small _ (by decide))
    unfold dec_tsq
    rw [if_pos hst]
    have hr := run_of_runs (runs_flatMap stepTsQ (fun c => escTs false c none) utf16cp [34] (· < 0x110000)
      (fun c tail v hc h => tsq_char c tail v hc h) (Runs.done (by simp [stepTsQ])) s hs)
    simpa using hr

theorem tst_roundtrip (s : Text) (hs : ∀ c ∈ s, c < 0x110000) :
    ∃ lit, enc_ts false true s = .ok lit ∧ dec_tst lit = some (s.flatMap utf16cp) := by
  refine ⟨[96] ++ tsBody true s ++ [96], ?_, ?_⟩
  · unfold enc_ts
    simp only [Bool.false_eq_true, if_false, Bool.not_true, stripped]
    rw [isStripped_quoted 96 _ (by decide)]; rfl
  · have hst : storable ([96] ++ tsBody true s ++ [96]) = true :=
      storable_wrap _ _ _ (okSrc_list_small _ (by decide))
        (tst_okSrc s hs) (okSrc_list_small _ (by decide))
    unfold dec_tst
    rw [if_pos hst]
    have hr := run_of_runs (runs_tst s hs)
    simpa using hr

example : enc_ts false true [36, 123, 36, 96, 0xDC00] = .ok (Text.ofString "`\\${$\\`\\udc00`") := by decide
example : dec_tst (Text.ofString "`\\${$\\`\\udc00`") = some [36, 123, 36, 96, 0xDC00] := by decide
example : dec_tst (Text.ofString "`${`") = none := by decide

/-! ## Java

The reader is two-staged as in the JLS: the Unicode-escape pre-pass (§3.3, with the rule on the
number of preceding backslashes) over the raw source, then the string literal (§3.10.5).
Lone surrogates are written as `\udXXX`, which only the pre-pass understands. (javac 17 deviates
from JLS §3.3 after a Unicode escape followed by backslashes: known finding C19-F2.) -/

theorem java_roundtrip (s : Text) (hs : ∀ c ∈ s, c < 0x110000) :
    ∃ lit, enc_java s = .ok lit ∧ dec_java lit = some (s.flatMap utf16cp) := by
  refine ⟨[34] ++ s.flatMap escJava ++ [34], ?_, ?_⟩
  · unfold enc_java stripped
    rw [isStripped_quoted 34 _ (by decide)]; rfl
  · have hst : storable ([34] ++ s.flatMap escJava ++ [34]) = true :=
      storable_wrap _ _ _ (okSrc_list_small _ (by decide))
        (okSrc_flatMap escJava _ java_okSrc s hs) (okSrc_list_small _ (by decide))
    unfold dec_java
    rw [if_pos hst]
    have hpre : javaPre .norm ([34] ++ s.flatMap escJava ++ [34]) = some (34 :: (s.flatMap preVal ++ [34])) := by
      have := java_pre_all s
      simp only [List.cons_append, List.nil_append, javaPre]
      simp [this, utf16cp]
    rw [hpre]
    have hr := run_of_runs (runs_flatMap stepJava preVal utf16cp [34] (· < 0x110000)
      (fun c tail v hc h => java_char c tail v hc h) (Runs.done (by simp [stepJava])) s hs)
    simpa using hr

theorem java_needs_escaping_iff (s : Text) :
    needs_java s = true ↔ enc_java s ≠ .ok ([34] ++ s ++ [34]) := by
  have henc : enc_java s = .ok ([34] ++ s.flatMap escJava ++ [34]) := by
    unfold enc_java stripped
    rw [isStripped_quoted 34 _ (by decide)]; rfl
  rw [henc]
  have := flatMap_eq_self_iff escJava needsCharJava java_needs_false java_needs_true s
  unfold needs_java
  constructor
  · intro hn heq
    simp only [Res.ok.injEq, List.cons_append, List.nil_append, List.cons.injEq, true_and,
      List.append_cancel_right_eq] at heq
    rw [this.1 heq] at hn; exact absurd hn (by decide)
  · intro hne
    cases hb : s.any needsCharJava with
    | true => rfl
    | false => exact absurd (by rw [this.2 hb]) hne

example : enc_java [0xD83D, 92, 117, 0x1F600] = .ok (Text.ofString "\"\\ud83d\\\\u" ++ [0x1F600, 34]) := by decide
/-- by the JLS the second backslash of `\\` is not eligible to start a Unicode escape -/
example : dec_java (Text.ofString "\"\\ud83d\\\\u" ++ [0x1F600, 34]) = some [0xD83D, 92, 117, 0xD83D, 0xDE00] := by decide

/-! ## C++ wide character literals, Python `needs_escaping` -/

/-- `wchar_literal`: the literal `L'…'` (or `static_cast<wchar_t>(0x…)` for a surrogate) denotes the character. -/
theorem cppc_roundtrip (c : Nat) (hc : c < 0x110000) :
    ∃ lit, enc_cppc [c] = .ok lit ∧ dec_cppc lit = some [c] := wchar_roundtrip c hc

/-- anything but a single character is reported by the precondition -/
theorem cppc_error_outside (s : Text) (h : s.length ≠ 1) : enc_cppc s = .err "ViolationError" := by
  match s, h with
  | [], _ => rfl
  | [_], h => exact absurd rfl h
  | _ :: _ :: _, _ => rfl

theorem py_needs_escaping_iff (s : Text) :
    needs_py false s = true ↔ enc_py .double false false s ≠ .ok ([34] ++ s ++ [34]) := by
  have henc : enc_py .double false false s = .ok ([34] ++ s.flatMap (pyEscChar Gen.Lit.pyDouble) ++ [34]) := by
    unfold enc_py
    simp only [pyUsesSingle, Bool.false_eq_true, if_false, pyTable, stripped]
    rw [isStripped_quoted 34 _ (by decide)]; rfl
  rw [henc]
  have := flatMap_eq_self_iff (pyEscChar Gen.Lit.pyDouble) needsCharPy py_needs_false py_needs_true s
  have hn : needs_py false s = s.any needsCharPy := by
    unfold needs_py; cases s.any needsCharPy <;> simp
  rw [hn]
  constructor
  · intro hn heq
    simp only [Res.ok.injEq, List.cons_append, List.nil_append, List.cons.injEq, true_and,
      List.append_cancel_right_eq] at heq
    rw [this.1 heq] at hn; exact absurd hn (by decide)
  · intro hne
    cases hb : s.any needsCharPy with
    | true => rfl
    | false => exact absurd (by rw [this.2 hb]) hne

example : enc_cppc [0xDFFF] = .ok (Text.ofString "static_cast<wchar_t>(0xdfff)") := by decide
example : dec_cppc (Text.ofString "static_cast<wchar_t>(0xdfff)") = some [0xDFFF] := by decide
example : dec_cppc (Text.ofString "L'\\x1f'") = some [31] := by decide

/-! ## bytes literals -/

/-- Python `bytes_literal` (single line for up to 8 bytes, else one `b"…"` per 8 bytes):
the literal, read as adjacent bytes literals inside parentheses, is exactly the original bytes. -/
theorem py_bytes_roundtrip (b : List Nat) (hb : ∀ x ∈ b, x < 256) :
    decbytes_py (bytes_py b).1 = some b := bytes_py_roundtrip b hb

/-- C++ `bytes_literal` (`{0x.., …}`, one row per 8 bytes, or `std::vector<std::uint8_t>()`). -/
theorem cpp_bytes_roundtrip (b : List Nat) (hb : ∀ x ∈ b, x < 256) :
    decbytes_cpp (bytes_cpp b).1 = some b := bytes_cpp_roundtrip b hb

/-- TypeScript `bytes_literal` (`new Uint8Array([…])`). -/
theorem ts_bytes_roundtrip (b : List Nat) (hb : ∀ x ∈ b, x < 256) :
    decbytes_ts (bytes_ts b).1 = some b := bytes_ts_roundtrip b hb

example : (bytes_py [0, 1, 2, 3, 4, 5, 6, 7, 255]).1 =
    Text.ofString "b\"\\x00\\x01\\x02\\x03\\x04\\x05\\x06\\x07\"\nb\"\\xff\"" := by decide
/-- known finding C19-F1: the multi-line Go composite literal is not valid Go (automatic semicolon) -/
example : decbytes_go (bytes_go [0, 1, 2, 3, 4, 5, 6, 7, 8]).1 = none := by decide
example : decbytes_go (bytes_go [0, 1, 2]).1 = some [0, 1, 2] := by decide

end AasVerif.Props.C19
