import AasVerif.Model.Lit.Enc
import AasVerif.Model.Lit.Dec
namespace AasVerif.Props.C19
open AasVerif AasVerif.Lit

theorem placeholder_utf16_ascii (c : Nat) (h : c < 128) : utf16cp c = [c] := by
  unfold utf16cp; split <;> first | rfl | omega

end AasVerif.Props.C19
