import AasVerif.Lemmas.CacheLog
import AasVerif.Lemmas.CacheLive4
import AasVerif.Gen.Cache
/-!
# C24 — the model cache survives crashes and concurrent runs

Subject of every theorem: `cfg.ops = Gen.Cache.loadModelOps`, the op skeleton regenerated from the
AST of `run.load_model` on every run, executed by `Cache.step` for an ARBITRARY schedule: any number
of runs, any interleaving of their ops, exceptions (`exc`) and kills (`kill`) at any point, including
inside the dump (an opened-but-not-closed tmp file is "incomplete").

Assumptions, all explicit: `hash` (sha256) injective on texts; `rename` atomic and open read handles
stable (the path-level file system of `Model/Cache.lean`); a run's tmp name is fresh (uid = index of
the run, justified by `tmp_name_fresh`).
-/
namespace AasVerif.Props.C24
open AasVerif AasVerif.Cache

/-- world: any hash, any validity predicate; the program is the extracted skeleton -/
def world (hash : Nat → Nat) (valid : Nat → Bool) : Cfg :=
  { hash := hash, valid := valid, ops := Gen.Cache.loadModelOps }

/-- The skeleton extracted from `run.load_model` passes the static checker, with and without the flag:
writes/dumps/unlinks only at the own tmp path, exists/open("rb") only at the final path, rename only
tmp → final after a completed dump and a closed handle, every exception edge leads to an accepted
`finally`. -/
theorem gen_safe : SafeSkeleton Gen.Cache.loadModelOps := by
  intro flag; cases flag <;> decide

/-- the temporary name contains a `uuid.uuid4()` (the model's "uid = index of the run") -/
theorem tmp_name_fresh : Gen.Cache.tmpNameHasUuid4 = true := by decide

/-- the final name is `model-<sha256(text read from model_path)>.pickle` -/
theorem key_is_text_hash : Gen.Cache.keyIsHashOfModelText = true := by decide

/-- `Inv`: every *final-path* entry is complete and keyed by the hash of the text it was computed
from (and that text is a valid model). -/
theorem inv_init (hash : Nat → Nat) (valid : Nat → Bool) : Inv (world hash valid) St.init.fs :=
  (WF_init (world hash valid)).inv

/-- Every event of every run — op, exception, kill, spawn — preserves the invariant. -/
theorem inv_step (hash : Nat → Nat) (valid : Nat → Bool) (hinj : ∀ a b, hash a = hash b → a = b)
    (s : St) (ev : Event) (h : WF (world hash valid) s) :
    WF (world hash valid) (step (world hash valid) s ev) ∧ Inv (world hash valid) (step (world hash valid) s ev).fs :=
  ⟨step_WF _ hinj gen_safe s ev h, (step_WF _ hinj gen_safe s ev h).inv⟩

/-- …hence it holds after every schedule: any N runs, any interleaving, any crash points. -/
theorem inv_schedule (hash : Nat → Nat) (valid : Nat → Bool) (hinj : ∀ a b, hash a = hash b → a = b)
    (sched : List Event) : Inv (world hash valid) (run (world hash valid) sched St.init).fs :=
  (run_WF _ hinj gen_safe sched St.init (WF_init _)).inv

/-- No run ever holds a read handle on a partially written entry (so `pickle.load` never sees one). -/
theorem no_partial_read (hash : Nat → Nat) (valid : Nat → Bool) (hinj : ∀ a b, hash a = hash b → a = b)
    (sched : List Event) (i : Nat) (p : Proc) (c : Content)
    (hp : (run (world hash valid) sched St.init).procs i = some p) (hc : p.rh = some c) :
    c.complete = true :=
  (((run_WF _ hinj gen_safe sched St.init (WF_init _)).pure i p hp).rh c hc).1

/-- No run ever reads or returns an entry computed from another text than its own. -/
theorem no_foreign_read (hash : Nat → Nat) (valid : Nat → Bool) (hinj : ∀ a b, hash a = hash b → a = b)
    (sched : List Event) (i : Nat) (p : Proc)
    (hp : (run (world hash valid) sched St.init).procs i = some p) :
    (∀ c, p.rh = some c → c.src = p.text) ∧ (∀ s, p.loaded = some s → s = p.text) := by
  have h := (run_WF _ hinj gen_safe sched St.init (WF_init _)).pure i p hp
  exact ⟨fun c hc => (h.rh c hc).2.1, fun s hs => (h.loaded s hs).1⟩

/-- Every run that completes returns exactly what an uncached run returns (the alternatives are
"an exception left load_model" and "killed"). -/
theorem completed_run_like_uncached (hash : Nat → Nat) (valid : Nat → Bool)
    (hinj : ∀ a b, hash a = hash b → a = b) (sched : List Event) (i : Nat) (p : Proc) (o : Outcome)
    (hp : (run (world hash valid) sched St.init).procs i = some p) (ho : p.mode = .finished o) :
    o = uncached (world hash valid) p.text ∨ o = .crashed ∨ o = .killed :=
  ((run_WF _ hinj gen_safe sched St.init (WF_init _)).pure i p hp).outcome o ho

/-- A crash leaves at most stray temporary files: anything incomplete in the cache directory is at
a tmp path, and that path belongs to one of the runs spawned so far. -/
theorem crash_leaves_only_tmp (hash : Nat → Nat) (valid : Nat → Bool) (hinj : ∀ a b, hash a = hash b → a = b)
    (sched : List Event) (q : Path) (c : Content)
    (hq : (run (world hash valid) sched St.init).fs q = some c) (hc : c.complete = false) :
    ∃ h u, q = .tmp h u ∧ u < (run (world hash valid) sched St.init).n := by
  have hwf := run_WF _ hinj gen_safe sched St.init (WF_init (world hash valid))
  cases q with
  | final h =>
    have := (hwf.inv h c hq).1
    rw [hc] at this; cases this
  | tmp h u => exact ⟨h, u, rfl, hwf.tmpBound h u c hq⟩

/-- Temporary files are ignored: every `exists` and every `open("rb")` any run ever does is on a
final path. -/
theorem tmp_ignored (hash : Nat → Nat) (valid : Nat → Bool) (hinj : ∀ a b, hash a = hash b → a = b)
    (sched : List Event) (i : Nat) (q : Path)
    (h : (i, Access.look q) ∈ (run (world hash valid) sched St.init).log ∨
         (i, Access.read q) ∈ (run (world hash valid) sched St.init).log) :
    ∃ hh, q = .final hh := by
  have hl := run_WF_LogOK _ hinj gen_safe sched St.init (WF_init (world hash valid)) (by intro x hx; simp [St.init] at hx)
  rcases h with h | h
  · exact hl _ h q (Or.inl rfl)
  · exact hl _ h q (Or.inr rfl)

/-- The skeleton passes the second static checker: every file is there when it is opened / renamed,
every handle open when used, the directory created before the tmp file, `exist_ok`/`missing_ok` set. -/
theorem gen_live : LiveSkeleton Gen.Cache.loadModelOps := by
  intro flag; cases flag <;> decide

/-- **Survives concurrent runs**: a run into which no fault (exception / kill) was injected never
raises, whatever the other runs do and wherever they crash: it is still running, or it has returned
exactly the result of an uncached run. (No FileNotFoundError from a lost race, no unpickling error.) -/
theorem no_spurious_crash (hash : Nat → Nat) (valid : Nat → Bool) (hinj : ∀ a b, hash a = hash b → a = b)
    (sched : List Event) (i : Nat) (p : Proc)
    (hp : (run (world hash valid) sched St.init).procs i = some p) (hf : p.faulted = false) :
    p.mode = .running ∨ p.mode = .finished (uncached (world hash valid) p.text) := by
  have h := run_LiveAll (world hash valid) hinj gen_safe gen_live sched St.init (WF_init _) (LiveAll_init _) i p hp
  rcases h.alive hf with ⟨hm, _⟩ | hfin
  · exact Or.inl hm
  · exact Or.inr hfin

/-- Non-vacuity: with `hash = id` two runs on the same text, the first killed inside its write
section, the second running to completion: the entry is complete and the stray tmp file remains. -/
example :
    let s := run (world id (fun _ => true))
      ([.spawn 3 true] ++ List.replicate 9 (.step 0) ++ [.kill 0, .spawn 3 true] ++ List.replicate 13 (.step 1)) St.init
    s.fs (.final 3) = some ⟨3, true⟩ ∧ s.fs (.tmp 3 0) = some ⟨3, false⟩ ∧ s.fs (.tmp 3 1) = none := by
  decide

end AasVerif.Props.C24
