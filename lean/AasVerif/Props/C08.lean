import AasVerif.Lemmas.PyEmit
import AasVerif.Lemmas.PyParen
import AasVerif.Lemmas.PyParseSem
import AasVerif.Lemmas.PyTrace
import AasVerif.Lemmas.InferSimple
import AasVerif.Lemmas.TraceSpec
import AasVerif.Lemmas.PyRules
import AasVerif.Lemmas.SdkVerify
import AasVerif.Lemmas.SdkExact
/-!
# C08 — Generated Python verification implements the invariants exactly

(b) The Python transpiler (`Model/PyEmit.lean`, tables from `Gen/PyEmit.lean`).
-/
namespace AasVerif.Props.C08
open AasVerif AasVerif.Expr AasVerif.PyEmit

/-! ## (b) transpiler: meaning -/

/-- **emit_preserves.** Whatever the transpiler emits for an expression evaluates, in every
environment, to exactly what the source expression evaluates to — value or exception
(`WellTyped` is: the transpiler reported no error, and the float constants are `repr`s a
literal can denote).  Covers the operator table, implication as `not A or B`, `and`/`or`
with their short-circuit operands, `is None`, negative constants, f-strings, `any`/`all`
with the loop variable scoped to the generator. -/
theorem emit_preserves (cfg : Cfg) (vs : List Text) (e : Expr) (x : PyExpr)
    (hfloat : noNan e = true) (h : transpile cfg vs e = .ok x) (ρ : Env) :
    PyExpr.eval ρ x = Expr.eval ρ e :=
  preserves cfg e vs x hfloat h ρ

/-- The condition of the emitted `if not …: yield Error(…)` is true exactly when the invariant
is falsy, and raises exactly what the invariant raises. -/
theorem emit_invariant_preserves (cfg : Cfg) (e : Expr) (x : PyExpr)
    (hfloat : noNan e = true) (h : transpileInvariant cfg e = .ok x) (ρ : Env) :
    PyExpr.eval ρ x =
      (match Expr.eval ρ e with
       | .val v => .val (.bool (!v.truthy ρ.fops))
       | err => err) := by
  simp only [transpileInvariant, Res.bind_eq_ok] at h
  obtain ⟨y, hy, h⟩ := h
  cases h
  simp only [PyExpr.eval, eval_parenUnless, preserves cfg e [] y hfloat hy ρ]
  cases Expr.eval ρ e <;> simp [Out.ofBool]

/-- The comparison table maps every comparator to the Python operator with the same meaning. -/
theorem comparison_table_faithful (op : Cmp) : emitCmp op = .ok (.cmp op) := emitCmp_ok op

/-! ## (b) transpiler: parentheses

Full statement (false): `transpile cfg vs e = .ok x → parenOK x = true`. -/

def cfg0 : Cfg := ⟨fun _ => none, fun _ _ => some .prop, fun _ => .notFunction⟩

/-- Negation witness: `(-5)[0]` is emitted as `-5[0]`, which Python reads as `-(5[0])`
(the collection of an index access is never parenthesised when it is a constant). -/
theorem emit_parens_full_fails :
    ¬ (∀ (cfg : Cfg) (vs : List Text) (e : Expr) (x : PyExpr),
        transpile cfg vs e = .ok x → parenOK x = true) := by
  intro h
  have := h cfg0 [] (.index (.const (.int (-5))) (.const (.int 0)))
    (.subscript (.neg (.int 5)) (.int 0)) rfl
  revert this
  decide

/-- **emit_parens_justified (partial).** Wherever the transpiler omits parentheses the
operand binds at least as tightly as Python's grammar requires at that position, provided
the instance of every member access is a primary and no index access has a constant as its
collection (`simple`, decidable; the type checker only admits such expressions). -/
theorem emit_parens_justified_partial (cfg : Cfg) (vs : List Text) (e : Expr) (x : PyExpr)
    (hs : simple e = true) (h : transpile cfg vs e = .ok x) : parenOK x = true :=
  (good cfg e vs x hs h).ok

/-- … and the whole `if not <expr>:` condition. -/
theorem emit_invariant_parens_justified_partial (cfg : Cfg) (e : Expr) (x : PyExpr)
    (hs : simple e = true) (h : transpileInvariant cfg e = .ok x) : parenOK x = true := by
  simp only [transpileInvariant, Res.bind_eq_ok] at h
  obtain ⟨y, hy, h⟩ := h
  cases h
  have g := good cfg e [] y hs hy
  simp only [parenOK, Bool.and_eq_true, decide_eq_true_eq]
  exact ⟨level_parenUnless (by decide) tbl_invariantTop g.level, ok_parenUnless g.ok⟩

/-- Non-vacuity: `not (self.a < 3) or self.b` meets the hypotheses and is transpiled. -/
example :
    let self := Expr.name PyEmit.selfName
    let e : Expr := .impl (.cmp (.member self [97]) .lt (.const (.int 3))) (.member self [98])
    simple e = true ∧ noNan e = true ∧
      transpile cfg0 [] e = .ok (.boolop false
        [.not (.paren (.compare (.attr .that .prop [97]) (.cmp .lt) (.int 3))), .attr .that .prop [98]]) := by
  intro self e
  exact ⟨by decide, by decide, rfl⟩

/-! ## (b) transpiler: the emitted text read back by Python's grammar

`print x` is the token sequence of the emitted text (`Model/PyParse.lean`; compared token by
token with CPython's `tokenize` of the real transpiler output on every run), `parse` reads a
token sequence along Python's expression grammar (`disjunction → conjunction → inversion →
comparison → sum → factor → primary → atom`, comparison chains and `not in` recognised as such
and reported `outside`; compared with CPython's `ast.parse` on every run), `PyEmit.strip x` is the
tree without `paren` nodes.

Full statement (false): `transpile cfg vs e = .ok x → parse (print x) = .ok (PyEmit.strip x) []`. -/

/-- Negation witness: the text emitted for `(-5)[0]` is `-5[0]`, which Python's grammar reads as
`-(5[0])`. -/
theorem emit_roundtrip_full_fails :
    ¬ (∀ (cfg : Cfg) (vs : List Text) (e : Expr) (x : PyExpr),
        transpile cfg vs e = .ok x → parse (print x) = .ok (PyEmit.strip x) []) := by
  intro h
  have h1 := h cfg0 [] (.index (.const (.int (-5))) (.const (.int 0)))
    (.subscript (.neg (.int 5)) (.int 0)) rfl
  have h2 : parse (print (.subscript (.neg (.int 5)) (.int 0))) =
      .ok (.neg (.subscript (.int 5) (.int 0))) [] := rfl
  rw [h2] at h1
  simp [PyEmit.strip] at h1

/-- **reader_roundtrip.** Whenever every omitted parenthesis is justified by the precedence
table (`parenOK`), Python's grammar reads the printed token sequence as exactly the expression
printed — for every `PyExpr`, transpiler output or not. -/
theorem reader_roundtrip (x : PyExpr) (h : parenOK x = true) : parse (print x) = .ok (PyEmit.strip x) [] :=
  parse_print x h

/-- **emit_roundtrip (partial).** The text the transpiler emits is read by Python's grammar as
the tree the transpiler meant (same hypothesis as `emit_parens_justified_partial`: member
instances are primaries, no index access on a constant). -/
theorem emit_roundtrip_partial (cfg : Cfg) (vs : List Text) (e : Expr) (x : PyExpr)
    (hs : simple e = true) (h : transpile cfg vs e = .ok x) : parse (print x) = .ok (PyEmit.strip x) [] :=
  parse_print x (good cfg e vs x hs h).ok

/-- … and the whole `if not <expr>:` condition. -/
theorem emit_invariant_roundtrip_partial (cfg : Cfg) (e : Expr) (x : PyExpr)
    (hs : simple e = true) (h : transpileInvariant cfg e = .ok x) : parse (print x) = .ok (PyEmit.strip x) [] :=
  parse_print x (emit_invariant_parens_justified_partial cfg e x hs h)

/-- **emit_text_preserves (partial).** Semantic form: the meaning Python gives to the emitted
*text* (read with the grammar, then evaluated) is the meaning of the source expression, in every
environment — value or exception. -/
theorem emit_text_preserves_partial (cfg : Cfg) (vs : List Text) (e : Expr) (x : PyExpr)
    (hs : simple e = true) (hfloat : noNan e = true) (h : transpile cfg vs e = .ok x) (ρ : Env) :
    evalToks ρ (print x) = some (Expr.eval ρ e) := by
  rw [evalToks_print x (good cfg e vs x hs h).ok ρ, preserves cfg e vs x hfloat h ρ]

/-- … and of the emitted `if` condition. -/
theorem emit_invariant_text_preserves_partial (cfg : Cfg) (e : Expr) (x : PyExpr)
    (hs : simple e = true) (hfloat : noNan e = true) (h : transpileInvariant cfg e = .ok x) (ρ : Env) :
    evalToks ρ (print x) =
      some (match Expr.eval ρ e with
       | .val v => .val (.bool (!v.truthy ρ.fops))
       | err => err) := by
  rw [evalToks_print x (emit_invariant_parens_justified_partial cfg e x hs h) ρ,
    emit_invariant_preserves cfg e x hfloat h ρ]

/-- The reader does not mistake a comparison chain for a nested comparison: `a < b < c` is
reported as a chain, the emitted `(a < b) < c` is read back as the nested comparison, and
`not a == b` is `not (a == b)`. -/
theorem reader_chain_and_not :
    let a := PyExpr.var [97]; let b := PyExpr.var [98]; let c := PyExpr.var [99]
    parse [.var [97], .cmp .lt, .var [98], .cmp .lt, .var [99]] = .outside ∧
    parse (print (.compare (.paren (.compare a (.cmp .lt) b)) (.cmp .lt) c)) =
      .ok (.compare (.compare a (.cmp .lt) b) (.cmp .lt) c) [] ∧
    parse [.kwNot, .var [97], .cmp .eq, .var [98]] = .ok (.not (.compare a (.cmp .eq) b)) [] ∧
    parse [.var [97], .kwNot, .kwIn, .var [98]] = .outside :=
  ⟨rfl, rfl, rfl, rfl⟩

/-- Non-vacuity: the example invariant above is transpiled to text that is read back. -/
example :
    let self := Expr.name PyEmit.selfName
    let e : Expr := .impl (.cmp (.member self [97]) .lt (.const (.int 3))) (.member self [98])
    ∃ x, transpile cfg0 [] e = .ok x ∧ simple e = true ∧
      print x = [.kwNot, .lpar, .that, .dot, .attrName .prop [97], .cmp .lt, .int 3, .rpar, .kwOr,
                 .that, .dot, .attrName .prop [98]] ∧
      parse (print x) = .ok (.boolop false
        [.not (.compare (.attr .that .prop [97]) (.cmp .lt) (.int 3)), .attr .that .prop [98]]) [] :=
  ⟨_, rfl, by decide, rfl, rfl⟩

/-! ## (b) transpiler: every expression the type inference accepts

`_transpile_invariant` (and the transpilation of verification functions) runs the type inference
first and transpiles only what it accepted.  `infer` (`Model/Expr/Infer.lean`, the model of
`type_inference._Inferrer` of C07) only gives a class / enumeration / list type to names,
member and index accesses and calls, so what it accepts is `simple`: the `_partial`
hypotheses above hold for **all** accepted expressions. -/

/-- What the type inference accepts meets the hypothesis of the parenthesis theorems. -/
theorem accepted_is_simple (Γ : TEnv) (e : Expr) (τ : Ty) (hty : inferC Γ e = .ok τ) : simple e = true :=
  infer_simple e Γ [] τ hty

/-- **emit_parens_justified.** For every expression the type inference accepts, the transpiler
omits parentheses only where Python's precedence table allows it. -/
theorem emit_parens_justified (Γ : TEnv) (e : Expr) (τ : Ty) (hty : inferC Γ e = .ok τ)
    (cfg : Cfg) (vs : List Text) (x : PyExpr) (h : transpile cfg vs e = .ok x) : parenOK x = true :=
  emit_parens_justified_partial cfg vs e x (accepted_is_simple Γ e τ hty) h

/-- **emit_roundtrip.** For every expression the type inference accepts, Python's grammar reads
the emitted text as the tree the transpiler meant. -/
theorem emit_roundtrip (Γ : TEnv) (e : Expr) (τ : Ty) (hty : inferC Γ e = .ok τ)
    (cfg : Cfg) (vs : List Text) (x : PyExpr) (h : transpile cfg vs e = .ok x) :
    parse (print x) = .ok (PyEmit.strip x) [] :=
  emit_roundtrip_partial cfg vs e x (accepted_is_simple Γ e τ hty) h

/-- … and the whole `if not <expr>:` condition of an invariant. -/
theorem emit_invariant_roundtrip (Γ : TEnv) (e : Expr) (τ : Ty) (hty : inferC Γ e = .ok τ)
    (cfg : Cfg) (x : PyExpr) (h : transpileInvariant cfg e = .ok x) :
    parse (print x) = .ok (PyEmit.strip x) [] :=
  emit_invariant_roundtrip_partial cfg e x (accepted_is_simple Γ e τ hty) h

/-- **emit_text_preserves.** For every accepted expression, the meaning Python gives to the emitted
*text* is the meaning of the source expression, in every environment — value or exception. -/
theorem emit_text_preserves (Γ : TEnv) (e : Expr) (τ : Ty) (hty : inferC Γ e = .ok τ)
    (cfg : Cfg) (vs : List Text) (x : PyExpr) (hfloat : noNan e = true) (h : transpile cfg vs e = .ok x) (ρ : Env) :
    evalToks ρ (print x) = some (Expr.eval ρ e) :=
  emit_text_preserves_partial cfg vs e x (accepted_is_simple Γ e τ hty) hfloat h ρ

/-- … and of the emitted `if` condition: true exactly when the invariant is falsy, raising what it raises. -/
theorem emit_invariant_text_preserves (Γ : TEnv) (e : Expr) (τ : Ty) (hty : inferC Γ e = .ok τ)
    (cfg : Cfg) (x : PyExpr) (hfloat : noNan e = true) (h : transpileInvariant cfg e = .ok x) (ρ : Env) :
    evalToks ρ (print x) =
      some (match Expr.eval ρ e with
       | .val v => .val (.bool (!v.truthy ρ.fops))
       | err => err) :=
  emit_invariant_text_preserves_partial cfg e x (accepted_is_simple Γ e τ hty) hfloat h ρ

/-- Non-vacuity: `not (self.a < 3) or self.b` is accepted by the inference for a class with an
`int` property `a` and a `bool` property `b`, and is transpiled. -/
example :
    let D : Decls := ⟨[([67], .cls ⟨[([97], .prim .int), ([98], .prim .bool)], [], [], []⟩)], [], []⟩
    let self := Expr.name PyEmit.selfName
    let e : Expr := .impl (.cmp (.member self [97]) .lt (.const (.int 3))) (.member self [98])
    inferC (TEnv.forSelf D [67]) e = .ok .bool ∧ noNan e = true ∧ ∃ x, transpile cfg0 [] e = .ok x := by
  intro D self e
  exact ⟨by decide, by decide, _, rfl⟩

/-! ## (b) transpiler: evaluation order

`Expr.trace ρ e` / `PyExpr.trace ρ x` (`Model/EvalOrder.lean`): the operations that can raise —
name lookups, attribute accesses, subscriptions, comparisons, `in`, `+`/`-`, calls, starts of
iterations, `range(…)`, f-string formatting — with their operand values, in the order Python
performs them (short-circuiting of `and` / `or` / implication, `any` / `all` stopping at the
deciding element, everything stopping at the first exception). -/

/-- **emit_order_preserves.** The emitted expression performs exactly the operations of the
source expression, on the same values, in the same order, in every environment.  With
`emit_preserves` (same outcome): it raises the same exception *at the same operation*, and it
never performs an operation (a call, an attribute access) that the source short-circuits away. -/
theorem emit_order_preserves (cfg : Cfg) (vs : List Text) (e : Expr) (x : PyExpr)
    (hfloat : noNan e = true) (h : transpile cfg vs e = .ok x) (ρ : Env) :
    PyExpr.trace ρ x = Expr.trace ρ e :=
  trace_preserves cfg e vs x hfloat h ρ

/-- … and the whole `if not <expr>:` condition (the negation adds no operation). -/
theorem emit_invariant_order_preserves (cfg : Cfg) (e : Expr) (x : PyExpr)
    (hfloat : noNan e = true) (h : transpileInvariant cfg e = .ok x) (ρ : Env) :
    PyExpr.trace ρ x = Expr.trace ρ e := by
  simp only [transpileInvariant, Res.bind_eq_ok] at h
  obtain ⟨y, hy, h⟩ := h
  cases h
  simp only [PyExpr.trace, trace_parenUnless, trace_preserves cfg e [] y hfloat hy ρ]

/-- **trace_pinpoints_raise.** What the trace means: when the source expression evaluates to a
value, no operation of its trace raised; when it raises, the LAST operation of the trace raised
exactly that exception and no operation before it raised (`TraceOK`).  (`wfBool`: no `and` / `or`
without operands, which Python cannot write.) -/
theorem trace_pinpoints_raise (e : Expr) (ρ : Env) (hw : wfBool e = true) :
    TraceOK (Expr.trace ρ e) (Expr.eval ρ e) :=
  trace_spec e ρ hw

/-- **emit_raises_at_same_operation.** The emitted expression raises exactly when the source
raises, the same exception, at the same operation: its trace is the trace of the source
(`emit_order_preserves`), its outcome the outcome of the source (`emit_preserves`), and in that
trace the operation that raised is the last one. -/
theorem emit_raises_at_same_operation (cfg : Cfg) (vs : List Text) (e : Expr) (x : PyExpr)
    (hfloat : noNan e = true) (hw : wfBool e = true) (h : transpile cfg vs e = .ok x) (ρ : Env) :
    PyExpr.trace ρ x = Expr.trace ρ e ∧ PyExpr.eval ρ x = Expr.eval ρ e ∧
      TraceOK (PyExpr.trace ρ x) (PyExpr.eval ρ x) := by
  refine ⟨trace_preserves cfg e vs x hfloat h ρ, preserves cfg e vs x hfloat h ρ, ?_⟩
  rw [trace_preserves cfg e vs x hfloat h ρ, preserves cfg e vs x hfloat h ρ]
  exact trace_spec e ρ hw

/-- The order statement is strictly stronger than `emit_preserves`: `a.x or b.x` and
`b.x or a.x` have the same outcome where both `a` and `b` are `None` (`AttributeError`), but
different traces (the operation that raises is the access on `a` resp. on `b`); and where `a.x`
is truthy the second operand is not touched. -/
theorem order_is_observable :
    let e1 : Expr := .or [.member (.name [97]) [120], .member (.name [98]) [120]]
    let e2 : Expr := .or [.member (.name [98]) [120], .member (.name [97]) [120]]
    let env (vars : List (Text × Val)) : Env :=
      ⟨vars, fun _ => none, fun _ _ => none, ⟨fun _ _ _ => .otherError, fun _ _ _ => .otherError, fun _ => false, id⟩,
        fun _ => .otherError⟩
    let ρ := env [([97], .none), ([98], .none)]
    let ρ' := env [([97], .inst 0 [67] [([120], .bool true)]), ([98], .none)]
    Expr.eval ρ e1 = Expr.eval ρ e2 ∧ Expr.trace ρ e1 ≠ Expr.trace ρ e2 ∧
      Expr.trace ρ' e1 = [⟨.load [97] (.val (.inst 0 [67] [([120], .bool true)])), none⟩,
        ⟨.getattr (.inst 0 [67] [([120], .bool true)]) [120], none⟩] := by
  intro e1 e2 env ρ ρ'
  refine ⟨rfl, ?_, rfl⟩
  have h1 : Expr.trace ρ e1 = [⟨.load [97] (.val .none), none⟩, ⟨.getattr .none [120], some .noneDeref⟩] := rfl
  have h2 : Expr.trace ρ e2 = [⟨.load [98] (.val .none), none⟩, ⟨.getattr .none [120], some .noneDeref⟩] := rfl
  rw [h1, h2]
  simp

/-! ## (a) parse rules -/

open AasVerif.PyAst in
/-- **rules_preserve.** Whatever `ast_node_to_our_node` accepts means, as an expression of our
tree evaluated by `Expr.eval`, exactly what CPython computes for the source expression
(`evalPy`: chained comparisons, comprehension conditions, unary minus, `not in`, … included),
in every environment — value or exception.  (Proved on the fixed rules: a comprehension with
`if` conditions is rejected.) -/
theorem rules_preserve (a : PyAst) (e : Expr) (h : ofPy a = .ok e) (ρ : Env) :
    Expr.eval ρ e = evalPy ρ a :=
  (rules_all a).1 e h ρ

open AasVerif.PyAst in
/-- The dispatch order the model bakes in is the order of `_CHAIN_OF_RULES` in the source. -/
theorem chain_order :
    Gen.PyRules.chain =
      [.Comparison, .IsIn, .AnyOrAll, .Call, .Constant, .Implication, .Member, .Index, .Name,
       .IsNoneOrIsNotNone, .Not, .AndOrOr, .AddOrSub, .Expression, .JoinedStr, .Assignment, .Return] := rfl

open AasVerif.PyAst in
/-- `_AST_COMPARATOR_TO_OURS` maps every Python comparison operator to our comparator of the
same meaning (and is not defined for `in`, `not in`, `is`, `is not`). -/
theorem comparator_table_faithful (f : FloatOps) (op : PyCmpOp) (c : Cmp) (h : oursOf op = some c)
    (l r : Val) : cmpOp f op l r = cmpVals f c l r := oursOf_cmpOp f op c h l r

open AasVerif.PyAst in
/-- A comprehension with `if` conditions is never accepted (it used to be accepted with the
conditions silently dropped). -/
theorem rules_reject_filtered_generators (target iter c : PyAst) (cs : List PyAst) (isAsync : Bool)
    (g : Gen) : ofPyGens [.mk target iter (c :: cs) isAsync] ≠ .ok g := by
  unfold ofPyGens
  split
  · next heq =>
    simp only [List.cons.injEq, Comp.mk.injEq, and_true] at heq
    obtain ⟨_, _, hifs, _⟩ := heq
    subst hifs
    simp
  · simp

/-! ## (c) the generated verification -/

open AasVerif.SdkV in
/-- **verify_exact, invariants of one value.** When no invariant raises, the errors reported for
a value are exactly its falsified invariants: description verbatim, path empty (relative to
the value). -/
theorem verify_invariants_exact (ρ : Env) (self : Val) (invs : List Inv)
    (h : (verifyInvs ρ self invs).raised = none) (d : Text) (p : Path) :
    (d, p) ∈ (verifyInvs ρ self invs).errors ↔
      (p = [] ∧ ∃ inv ∈ invs, inv.description = d ∧ Falsified ρ self inv) :=
  verifyInvs_exact ρ self invs h d p

open AasVerif.SdkV in
/-- Verification raises only where evaluating an invariant itself raises, and then the same
exception. -/
theorem verify_raises_only_where_invariant_raises (ρ : Env) (self : Val) (invs : List Inv) (o : Out)
    (h : (verifyInvs ρ self invs).raised = some o) : ∃ inv ∈ invs, Raises ρ self inv o :=
  verifyInvs_raises ρ self invs o h

open AasVerif.SdkV in
/-- `verify` of an instance of a known class: its invariants first, then the properties in
declaration order (the order of the emitted `transform_<Cls>`). -/
theorem verify_instance_unfold (m : MM) (ρ : Env) (oid : Nat) (cn : Text) (fields : List (Text × Val))
    (c : Cls) (hc : m.findCls cn = some c) :
    verify m ρ (.inst oid cn fields) =
      VRes.seq (verifyInvs ρ (.inst oid cn fields) c.invs)
        (VRes.seqAll (c.props.map (fun p => verifyField m ρ p fields))) := by
  simp [verify, verifyInst, hc]

open AasVerif.SdkV in
/-- **verify_exact.** When verification of an instance does not raise, `(d, p)` is reported
exactly when the value reached at path `p` — a nested class instance or a value typed by a
constrained primitive (`targetsInst` enumerates them in the order of the emitted code, list
items with their index) — falsifies one of the stacked invariants of its class / constrained
primitive whose description is `d` (verbatim). -/
theorem verify_exact (m : MM) (ρ : Env) (v : Val) (h : (verify m ρ v).raised = none)
    (d : Text) (p : Path) :
    (d, p) ∈ (verify m ρ v).errors ↔
      ∃ t ∈ targetsInst m v, t.path = p ∧ ∃ inv ∈ t.invs, inv.description = d ∧ Falsified ρ t.self inv :=
  verify_exact_targets m ρ v h d p

open AasVerif.SdkV in
/-- … and as lists: the errors are the reports of the targets, in order. -/
theorem verify_errors_in_order (m : MM) (ρ : Env) (v : Val) (h : (verify m ρ v).raised = none) :
    (verify m ρ v).errors = allErrors ρ (targetsInst m v) :=
  inst_errors m ρ v h

end AasVerif.Props.C08
