import AasVerif.Model.Retree.Parse
import AasVerif.Model.Retree.Render
import AasVerif.Model.Retree.InRange
import AasVerif.Gen.Retree
namespace AasVerif.Props.C16
open AasVerif AasVerif.Retree

theorem placeholder : parse [.str [97]] = .ok (.mk [.mk [.mk (.char ⟨97, false⟩) none]]) := rfl

end AasVerif.Props.C16
