import AasVerif.Lemmas.RetreeSpec
import AasVerif.Lemmas.RetreeRound
import AasVerif.Model.Retree.Render
import AasVerif.Gen.Retree
/-!
# C16 — Regex front end is total and faithful

Property theorems about `Retree.parse` (model of `retree.parse` after the `fix:` commits of
branch `verif-c16`) and `Retree.render` (model of `retree.render`).
-/
namespace AasVerif.Props.C16
open AasVerif AasVerif.Retree

/-- The token-level parser never crashes and the fuel `parse` supplies is always enough:
no `assert`, `@require`, `KeyError` or fuel exhaustion, for every token sequence. -/
theorem parseToks_never_crashes (ts : List Tok) : ∀ s, parseToks ts ≠ .crash s := by
  intro s h
  have hu := (spec_all (fuelFor ts)).2.2.2 ts
  unfold parseToks at h
  cases hp : parseUnion (fuelFor ts) ts with
  | err k n => rw [hp] at h; cases h
  | crash s' =>
    rw [hp] at hu
    have := hu.2
    unfold fuelFor at this
    omega
  | ok v =>
    obtain ⟨u, r⟩ := v
    rw [hp] at h
    simp only at h
    split at h <;> cases h

/-- **Totality.** For all values that satisfy the precondition of `Cursor` (no two consecutive
strings, no empty string before the last position) `parse` returns a tree or a positioned error;
it never raises. -/
theorem parse_never_crashes (vs : List Part) (hwf : wfParts vs = true) : ∀ s, parse vs ≠ .crash s := by
  intro s h
  unfold parse at h
  rw [if_pos hwf] at h
  cases hp : parseToks (flatten vs) with
  | ok r => rw [hp] at h; cases h
  | err k n => rw [hp] at h; cases h
  | crash s' => exact parseToks_never_crashes _ _ hp

/-- The only crash of `parse` is the violated precondition of `Cursor` itself. -/
theorem parse_crash_only_precondition (vs : List Part) (s : Site) (h : parse vs = .crash s) :
    s = .cursorPrecondition ∧ wfParts vs = false := by
  cases hwf : wfParts vs with
  | true => exact absurd h (parse_never_crashes vs hwf s)
  | false =>
    unfold parse at h
    simp only [hwf, Bool.false_eq_true, if_false] at h
    injection h with h
    exact ⟨h.symm, rfl⟩

/-- An error of the token-level parser records at most as many remaining tokens as there are. -/
theorem parseToks_err_within (ts : List Tok) (k : ErrKind) (n : Nat) (h : parseToks ts = .err k n) :
    n ≤ ts.length := by
  have hu := (spec_all (fuelFor ts)).2.2.2 ts
  unfold parseToks at h
  cases hp : parseUnion (fuelFor ts) ts with
  | err k' n' => rw [hp] at h hu; injection h with _ hn; subst hn; exact hu
  | crash s' => rw [hp] at h; cases h
  | ok v =>
    obtain ⟨u, r⟩ := v
    rw [hp] at h hu
    simp only at h
    split at h
    · cases h
    · injection h with _ hn; subst hn; exact hu.1

/-- **Positioned errors.** The cursor of a returned error is a position of the input: its offset
`pos` is exact (`pos + remaining = length`), so `render_pointer` can always draw it. -/
theorem parse_err_positioned (vs : List Part) (e : Err) (h : parse vs = .err e) :
    e.pos ≤ (flatten vs).length ∧
    ∃ n, parseToks (flatten vs) = .err e.kind n ∧ e.pos + n = (flatten vs).length := by
  unfold parse at h
  split at h
  · cases hp : parseToks (flatten vs) with
    | ok r => rw [hp] at h; cases h
    | crash s => rw [hp] at h; cases h
    | err k n =>
      rw [hp] at h
      injection h with h
      subst h
      have := parseToks_err_within _ _ _ hp
      exact ⟨by simp, n, rfl, by simp; omega⟩
  · cases h

/-- **The image of the parser.** Every tree `parse` returns satisfies `inRangeTop`: no unencoded
`|` literal, encoded characters are code points, quantifiers have `min ≤ max`, counts below `2**32 - 1`
(what Python's `re` accepts; former finding C16-F2) and do not sit on `^`/`$`, character sets are non-empty, their ranges ordered and pairwise disjoint, complemented
sets stay within the BMP bound, groups are non-empty. -/
theorem parse_outputs_inRange (vs : List Part) (r : Regex) (h : parse vs = .ok r) : inRangeTop r = true := by
  unfold parse at h
  split at h
  · cases hp : parseToks (flatten vs) with
    | err k n => rw [hp] at h; cases h
    | crash s => rw [hp] at h; cases h
    | ok r' =>
      rw [hp] at h
      injection h with h
      subst h
      generalize flatten vs = ts at hp
      have hu := (spec_all (fuelFor ts)).2.2.2 ts
      unfold parseToks at hp
      cases hpu : parseUnion (fuelFor ts) ts with
      | err k n => rw [hpu] at hp; cases hp
      | crash s => rw [hpu] at hp; cases hp
      | ok v =>
        obtain ⟨u, rest⟩ := v
        rw [hpu] at hp hu
        simp only at hp
        split at hp
        · next hrest =>
          injection hp with hp
          subst hp
          obtain ⟨_, hin, hnil, hcons⟩ := hu
          unfold inRangeTop
          rw [hin, Bool.true_and]
          split
          · exfalso
            by_cases hts : ts = []
            · have := hnil hts; cases this
            · have := (hcons hts).2 rfl
              exact hts (this ▸ hrest)
          · rfl
        · cases hp
  · cases h

/-! ### Round trip

Full statement (DESIGN.md, planned, **not proved** in this round):

    theorem parse_render_id (vs : List Part) (r : Regex) :
        parse vs = .ok r → parse (render Gen.Retree.escLiteral Gen.Retree.escRange r) = .ok r

It is proved below for the fragment `simpleUnion r`: no character sets, no groups, no
explicitly encoded (`\x`/`\u`/`\U`) characters, quantifiers `* + ?` (greedy or non-greedy)
only; formatted values, anchors, the dot, unions, and every plain or escaped literal are
included.  No counter-example to the full statement is known (the correspondence and the
oracle test it on every run for all four excluded constructs).
-/

/-- The renderer's table for character literals of the *current source* has the shape the
round trip needs: every entry is `\c` with `c` read back by `_parse_char_literal` as the key,
and every character that starts another kind of term (`^ $ . ( [ * + ? { \ )`) has an entry. -/
theorem escLiteral_ok : litOk Gen.Retree.escLiteral = true := by decide

/-- Round trip on the fragment, for every tree in the parser's image. -/
theorem render_parse_inRange_partial (r : Regex) (hin : inRangeTop r = true) (hs : simpleUnion r = true) :
    parse (render Gen.Retree.escLiteral Gen.Retree.escRange r) = .ok r := by
  unfold parse render
  rw [if_pos (wfParts_compress _), flatten_compress]
  obtain ⟨us⟩ := r
  unfold inRangeTop at hin
  cases us with
  | nil => rfl
  | cons c cs =>
    obtain ⟨c⟩ := c
    simp only [Bool.and_eq_true] at hin
    have hne : renderUnion Gen.Retree.escLiteral Gen.Retree.escRange (.mk (.mk c :: cs)) ≠ [] := by
      intro h
      simp only [renderUnion, renderConcat] at h
      have hin1 := hin.1
      simp only [inRangeUnion, inRangeConcats, Bool.and_eq_true] at hin1
      simp only [simpleUnion, simpleConcats, Bool.and_eq_true] at hs
      have hc := renderTerms_nil_of _ _ escLiteral_ok c _ hin1.1 hs.1 h
      subst hc
      simp only [renderTerms, List.nil_append] at h
      cases cs with
      | nil => simp at hin
      | cons x xs => obtain ⟨x⟩ := x; simp only [renderAlts] at h; cases h
    have hrt := rt_union Gen.Retree.escLiteral Gen.Retree.escRange escLiteral_ok c cs
      (fuelFor (renderUnion Gen.Retree.escLiteral Gen.Retree.escRange (.mk (.mk c :: cs)))) hin.1 hs hne
    have hnc := parseToks_never_crashes (renderUnion Gen.Retree.escLiteral Gen.Retree.escRange (.mk (.mk c :: cs))) .fuel
    unfold parseToks at hnc ⊢
    rcases hrt with hrt | hrt
    · rw [hrt]; simp
    · rw [hrt] at hnc; exact absurd rfl hnc

/-- **Round trip (fragment).** If `parse` returns a tree of the fragment, parsing its rendering
returns the same tree. -/
theorem parse_render_id_partial (vs : List Part) (r : Regex) (h : parse vs = .ok r) (hs : simpleUnion r = true) :
    parse (render Gen.Retree.escLiteral Gen.Retree.escRange r) = .ok r :=
  render_parse_inRange_partial r (parse_outputs_inRange vs r h) hs

/-- **Rendering is idempotent (fragment).** Rendering the re-parsed rendering gives the same values. -/
theorem render_idempotent_partial (vs : List Part) (r r' : Regex) (h : parse vs = .ok r) (hs : simpleUnion r = true)
    (h' : parse (render Gen.Retree.escLiteral Gen.Retree.escRange r) = .ok r') :
    render Gen.Retree.escLiteral Gen.Retree.escRange r' = render Gen.Retree.escLiteral Gen.Retree.escRange r := by
  rw [parse_render_id_partial vs r h hs] at h'
  injection h' with h'
  rw [h']

/-- non-vacuity: `^a\.{x}*?|\$$` with a formatted value is in the fragment and in the image -/
example : inRangeTop (.mk [.mk [.mk (.sym .start) none, .mk (.char ⟨97, false⟩) none, .mk (.char ⟨46, false⟩) none,
      .mk (.fv 0) (some ⟨true, 0, none⟩)], .mk [.mk (.char ⟨36, false⟩) none, .mk (.sym .stop) none]]) = true
    ∧ simpleUnion (.mk [.mk [.mk (.sym .start) none, .mk (.char ⟨97, false⟩) none, .mk (.char ⟨46, false⟩) none,
      .mk (.fv 0) (some ⟨true, 0, none⟩)], .mk [.mk (.char ⟨36, false⟩) none, .mk (.sym .stop) none]]) = true := by decide

/-! ### A closing bracket in the first position is a member of the character set (former finding C18-F1) -/

/-- `^[]a]$` is the set `{], a}` between the anchors, as Python's `re` reads it (it was read as the empty
set `[]` followed by `a]`, later refused as "empty character set"). -/
theorem bracket_first_is_member :
    parse [.str [94, 91, 93, 97, 93, 36]] = .ok (.mk [.mk [.mk (.sym .start) none,
      .mk (.set false [⟨⟨93, false⟩, none⟩, ⟨⟨97, false⟩, none⟩]) none, .mk (.sym .stop) none]]) ∧
    -- `[^]]`: everything but `]`
    parse [.str [91, 94, 93, 93]] = .ok (.mk [.mk [.mk (.set true [⟨⟨93, false⟩, none⟩]) none]]) ∧
    -- `[]-a]`: the range from `]` to `a`
    parse [.str [91, 93, 45, 97, 93]] = .ok (.mk [.mk [.mk (.set false [⟨⟨93, false⟩, some ⟨97, false⟩⟩]) none]]) ∧
    -- `[-]]`: after the leading dash the bracket closes the set, the second one is a literal
    parse [.str [91, 45, 93, 93]] = .ok (.mk [.mk [.mk (.set false [⟨⟨45, false⟩, none⟩]) none,
      .mk (.char ⟨93, false⟩) none]]) ∧
    -- the rendering `[\]a]` is read back as the same tree
    parse (render Gen.Retree.escLiteral Gen.Retree.escRange
      (.mk [.mk [.mk (.set false [⟨⟨93, false⟩, none⟩, ⟨⟨97, false⟩, none⟩]) none]]))
      = .ok (.mk [.mk [.mk (.set false [⟨⟨93, false⟩, none⟩, ⟨⟨97, false⟩, none⟩]) none]]) :=
  ⟨rfl, rfl, rfl, rfl, rfl⟩

/-- The loop of `_parse_ranges_and_closing` started at the first member returns at least one range … -/
theorem parseRangesLoop_first_nonempty (g : Nat) (ts r : List Tok) (items : List (Rng × Nat))
    (h : parseRangesLoop true g ts = .ok (items, r)) : items ≠ [] := by
  cases g with
  | zero => simp [parseRangesLoop] at h
  | succ g =>
    unfold parseRangesLoop at h
    split at h
    · cases h
    · injection h with h; injection h with h _; subst h; simp
    · cases h
    · have hc : closesSet true ts = false := by unfold closesSet; split <;> rfl
      simp only [hc, Bool.false_eq_true, if_false] at h
      split at h
      · cases h
      · cases h
      · split at h
        · cases h
        · cases h
        · split at h
          · cases h
          · split at h
            · injection h with h; injection h with h _; subst h; simp
            · cases h
            · cases h

theorem parseRangeChar_never_emptySet (ts : List Tok) (n : Nat) : parseRangeChar ts ≠ .err .emptySet n := by
  intro hrc
  unfold parseRangeChar at hrc
  split at hrc
  · cases hrc
  · split at hrc
    · cases hrc
    · split at hrc
      · unfold parseEscape at hrc
        split at hrc
        · split at hrc
          · unfold parseHex at hrc; (repeat' split at hrc) <;> cases hrc
          · split at hrc
            · unfold parseHex at hrc; (repeat' split at hrc) <;> cases hrc
            · split at hrc
              · unfold parseHex at hrc; (repeat' split at hrc) <;> cases hrc
              · (repeat' split at hrc) <;> cases hrc
        · cases hrc
      · cases hrc
  · cases hrc

theorem parseRangeEnd_never_emptySet (ts : List Tok) (n : Nat) : parseRangeEnd ts ≠ .err .emptySet n := by
  intro hre
  unfold parseRangeEnd at hre
  split at hre
  · cases hre
  · cases hre
  · cases hre
  · next r _ _ _ =>
    cases hrc2 : parseRangeChar r with
    | ok v => rw [hrc2] at hre; cases hre
    | crash s => rw [hrc2] at hre; cases hre
    | err k n' =>
      rw [hrc2] at hre
      injection hre with hk hn
      subst hk
      exact parseRangeChar_never_emptySet _ _ hrc2
  · cases hre

theorem parseRangesLoop_never_emptySet : ∀ (g : Nat) (first : Bool) (ts : List Tok) (n : Nat),
    parseRangesLoop first g ts ≠ .err .emptySet n := by
  intro g
  induction g with
  | zero => intro first ts n; simp [parseRangesLoop]
  | succ g ih =>
    intro first ts n
    unfold parseRangesLoop
    split
    · simp
    · simp
    · simp
    · split
      · simp
      · cases hrc : parseRangeChar ts with
        | err k n' =>
          simp only
          intro hh; injection hh with hk _; subst hk
          exact parseRangeChar_never_emptySet _ _ hrc
        | crash s => simp
        | ok v =>
          obtain ⟨start, ts1⟩ := v
          simp only
          cases hre : parseRangeEnd ts1 with
          | err k n' =>
            simp only
            intro hh; injection hh with hk _; subst hk
            exact parseRangeEnd_never_emptySet _ _ hre
          | crash s => simp
          | ok v =>
            obtain ⟨e, ts2⟩ := v
            simp only
            split
            · simp
            · cases hr : parseRangesLoop false g ts2 with
              | ok v => simp
              | crash s => simp
              | err k n' =>
                simp only
                intro hh; injection hh with hk _; subst hk
                exact ih false ts2 _ hr

/-- … so the check `len(ranges) == 0` of `_parse_ranges_and_closing` is dead since the repair: no input
makes the parser of character sets report an empty set. -/
theorem parseRanges_never_emptySet (ts : List Tok) (n : Nat) : parseRanges ts ≠ .err .emptySet n := by
  intro h
  unfold parseRanges at h
  split at h
  · next k n' hl =>
    injection h with hk _
    subst hk
    exact parseRangesLoop_never_emptySet _ _ _ _ hl
  · cases h
  · next items r hl =>
    split at h
    · next hempty =>
      have hpre : prefixDash ts = [] := by
        cases hp : prefixDash ts with
        | nil => rfl
        | cons x xs => rw [hp] at hempty; simp at hempty
      rw [hpre] at hl hempty
      simp only [List.isEmpty_nil, List.nil_append] at hl hempty
      exact parseRangesLoop_first_nonempty _ _ _ _ hl hempty
    · unfold checkOverlap at h
      split at h
      · cases h
      · split at h
        · injection h with hk _; cases hk
        · cases h

/-! ### Concrete instances (non-vacuity; the witnesses of the repaired defects) -/

/-- `^*` is an error at offset 2 (it raised an AssertionError before the fix). -/
example : parse [.str [94, 42]] = .err ⟨.symbolQuantifier, 2⟩ := rfl
/-- `{` -/
example : parse [.str [123]] = .err ⟨.quantWithoutTerm, 1⟩ := rfl
/-- `a{2,1}` -/
example : parse [.str [97, 123, 50, 44, 49, 125]] = .err ⟨.quantMinMax, 5⟩ := rfl
/-- `[--a]` -/
example : parse [.str [91, 45, 45, 97, 93]] = .err ⟨.unexpectedDash, 2⟩ := rfl
/-- `[]`: the `]` is the first member, the set is not closed (Python's `re`: "unterminated character set") -/
example : parse [.str [91, 93]] = .err ⟨.closingBracket, 2⟩ := rfl
/-- `[^]` -/
example : parse [.str [91, 94, 93]] = .err ⟨.closingBracket, 3⟩ := rfl
/-- `a{4294967295}` (`2**32 - 1`, refused by Python's `re` with an OverflowError) is an error of the pattern
(former finding C16-F2: it was accepted). -/
example : parse [.str [97, 123, 52, 50, 57, 52, 57, 54, 55, 50, 57, 53, 125]] = .err ⟨.quantTooLarge, 12⟩ := rfl
/-- `a{0,4294967295}` -/
example : parse [.str [97, 123, 48, 44, 52, 50, 57, 52, 57, 54, 55, 50, 57, 53, 125]] = .err ⟨.quantTooLarge, 14⟩ := rfl
/-- `a{4294967294}` is the largest count -/
example : parse [.str [97, 123, 52, 50, 57, 52, 57, 54, 55, 50, 57, 52, 125]]
    = .ok (.mk [.mk [.mk (.char ⟨97, false⟩) (some ⟨false, 4294967294, some 4294967294⟩)]]) := rfl
/-- `xy[a-cb-d]`: the overlap error points to the first of the two ranges (offset 3). -/
example : parse [.str [120, 121, 91, 97, 45, 99, 98, 45, 100, 93]] = .err ⟨.overlap, 3⟩ := rfl
/-- two consecutive strings violate the precondition of `Cursor` -/
example : parse [.str [97], .str [98]] = .crash .cursorPrecondition := rfl
/-- a formatted value with a quantifier between two strings -/
example : parse [.str [94], .fv 0, .str [42, 36]]
    = .ok (.mk [.mk [.mk (.sym .start) none, .mk (.fv 0) (some ⟨false, 0, none⟩), .mk (.sym .stop) none]]) := rfl
/-- `[\^-a]` renders with its end (it was rendered as `[\^]`). -/
example : render Gen.Retree.escLiteral Gen.Retree.escRange
    (.mk [.mk [.mk (.set false [⟨⟨94, false⟩, some ⟨97, false⟩⟩]) none]]) = [.str [91, 92, 94, 45, 97, 93]] := by decide

end AasVerif.Props.C16
