import AasVerif.Model.Execute
import AasVerif.Gen.Generators
import AasVerif.Lemmas.Execute
/-!
# C02 — Generators never crash on accepted meta-models (the plumbing part)

What is proved here is the *decision logic* of the eight `<target>/main.py:execute` functions over
ALL combinations of outcomes of their verification and generator steps, for the skeletons
regenerated from the source on every run (`Gen.Generators`): no error result of any step is
dropped, none is `assert`ed away, no `OSError` of a directory creation or file write escapes; the
function exits 0 exactly when every step succeeded and otherwise exits non-zero with a report about
the first failing step.

What is **not** proved: that the ~100 kLoC of generator code behind the steps never raises. That
is explored by the crash oracle of `harness/props/c02.py` (accepted models × 8 targets + smoke);
the totality of `Len.reduce/merge` and `Revm.translate` is C15's and C18's part.
-/
namespace AasVerif.Props.C02
open AasVerif.Execute AasVerif.Lemmas.Execute

/-! ## General theorems (any skeleton, all outcome combinations) -/

/-- **No uncaught exception from the plumbing**: whatever the steps return or raise
(error lists, `OSError` on mkdir / write), a well-handled `execute` never crashes. -/
theorem never_crashes (sk : Skeleton) (h : wellHandled sk = true) (failed : Nat → Bool)
    (out : Nat → StepOut) (site : String) : execute sk failed out ≠ .crash site := by
  obtain ⟨hc, hl, hm, hw⟩ := wellHandled_parts sk h
  unfold execute
  cases hr : runChecks sk.checks failed 0 with
  | some r =>
    intro heq
    simp only at heq
    subst heq
    exact runChecks_not_crash sk.checks failed 0 hc site hr
  | none => exact runSteps_not_crash sk sk.steps out 0 hl hm hw site

/-- **No error is dropped**: status 0 is reached only if no check returned errors and every
generator step returned code that could be written. -/
theorem exit0_only_if_all_ok (sk : Skeleton) (h : wellHandled sk = true) (failed : Nat → Bool)
    (out : Nat → StepOut) (hr : execute sk failed out = .exit0) :
    (∀ j, j < sk.checks.length → failed j = false) ∧
    (∀ j, (hj : j < sk.steps.length) → eff sk.steps[j] (out j) = .ok) := by
  obtain ⟨hc, hl, hm, hw⟩ := wellHandled_parts sk h
  unfold execute at hr
  cases hck : runChecks sk.checks failed 0 with
  | some r =>
    simp only [hck] at hr
    subst hr
    -- a reported check never yields exit0
    exfalso
    exact runChecks_ne_exit0 failed _ _ hck
  | none =>
    simp only [hck] at hr
    refine ⟨?_, ?_⟩
    · intro j hj
      simpa using runChecks_none sk.checks failed 0 hc hck j hj
    · intro j hj
      simpa using runSteps_exit0 sk sk.steps out 0 hl hm hw hr j hj

/-- Conversely, if every step succeeds the generator exits 0 (any skeleton). -/
theorem exit0_if_all_ok (sk : Skeleton) (failed : Nat → Bool) (out : Nat → StepOut)
    (hc : ∀ j, j < sk.checks.length → failed j = false)
    (hs : ∀ j, (hj : j < sk.steps.length) → eff sk.steps[j] (out j) = .ok) :
    execute sk failed out = .exit0 := by
  unfold execute
  rw [runChecks_all_ok sk.checks failed 0 (by simpa using hc)]
  exact runSteps_all_ok sk sk.steps out 0 (by simpa using hs)

/-- **The report blames a real failure**: a non-zero exit names a check that returned errors,
or a generator step that returned errors / whose directory or file could not be written. -/
theorem exit1_blames_a_failure (sk : Skeleton) (failed : Nat → Bool) (out : Nat → StepOut)
    (k : Kind) (n : Nat) (hr : execute sk failed out = .exit1 k n) :
    (k = .check ∧ n < sk.checks.length ∧ failed n = true) ∨
    (∃ (hn : n < sk.steps.length),
      (k = .generate ∧ eff sk.steps[n] (out n) = .err) ∨
      (k = .mkdir ∧ eff sk.steps[n] (out n) = .mkdirFail) ∨
      (k = .write ∧ eff sk.steps[n] (out n) = .writeFail)) := by
  unfold execute at hr
  cases hck : runChecks sk.checks failed 0 with
  | some r =>
    simp only [hck] at hr
    subst hr
    obtain ⟨a, _, c, d⟩ := runChecks_exit1 sk.checks failed 0 k n hck
    exact Or.inl ⟨a, by simpa using c, d⟩
  | none =>
    simp only [hck] at hr
    obtain ⟨_, hn, hcase⟩ := runSteps_exit1 sk sk.steps out 0 k n hr
    exact Or.inr ⟨by simpa using hn, by simpa using hcase⟩

/-- The three outcomes are exhaustive and, for a well-handled skeleton, an error anywhere means
a non-zero exit with a report (the statement of C02 at the level of the plumbing). -/
theorem error_means_reported_nonzero_exit (sk : Skeleton) (h : wellHandled sk = true)
    (failed : Nat → Bool) (out : Nat → StepOut)
    (herr : (∃ j, j < sk.checks.length ∧ failed j = true) ∨
            (∃ j, ∃ (hj : j < sk.steps.length), eff sk.steps[j] (out j) ≠ .ok)) :
    ∃ k n, execute sk failed out = .exit1 k n := by
  cases hr : execute sk failed out with
  | exit0 =>
    exfalso
    obtain ⟨hc, hs⟩ := exit0_only_if_all_ok sk h failed out hr
    rcases herr with ⟨j, hj, hf⟩ | ⟨j, hj, hf⟩
    · simp [hc j hj] at hf
    · exact hf (hs j hj)
  | exit1 k n => exact ⟨k, n, rfl⟩
  | crash site => exact absurd hr (never_crashes sk h failed out site)

/-! ## Sensitivity of the model (what the theorems exclude) -/

/-- The shape `cpp/main.py` had on the pinned tree (`verify_for_types` errors not looked at, the
value asserted): an error result of the verification is an uncaught `AssertionError`. -/
theorem asserted_check_crashes :
    execute { target := "cpp", checks := [{ call := "cpp_lib.verify_for_types", handling := .asserted }],
              loop := .reported, steps := [], mkdirs := 0, mkdirGuarded := true, writes := 1,
              writeGuarded := true, doneLine := true }
      (fun _ => true) (fun _ => .ok) = .crash "AssertionError" := by decide

/-- A dropped error result lets the run exit 0 although a check failed. -/
theorem ignored_check_is_dropped :
    execute { target := "x", checks := [{ call := "verify", handling := .ignored }],
              loop := .reported, steps := [], mkdirs := 0, mkdirGuarded := true, writes := 1,
              writeGuarded := true, doneLine := true }
      (fun _ => true) (fun _ => .ok) = .exit0 := by decide

/-- An unguarded file write lets an `OSError` escape. -/
theorem unguarded_write_crashes :
    execute { target := "x", checks := [], loop := .reported,
              steps := [{ path := "a", call := "f", fallible := false }], mkdirs := 1,
              mkdirGuarded := true, writes := 1, writeGuarded := false, doneLine := true }
      (fun _ => false) (fun _ => .writeFail) = .crash "OSError" := by decide

/-! ## Table theorems over the regenerated skeletons (`decide` over the whole table) -/

open AasVerif.Gen.Generators in
/-- All eight targets, in the order of the `Target` enumeration of the property. -/
theorem targets_are :
    all.map (·.target) = ["cpp", "csharp", "golang", "java", "jsonschema", "python", "typescript", "xsd"] := by
  decide

open AasVerif.Gen.Generators in
/-- In every target: each error-returning check is followed by "report + non-zero return", the
loop reports the errors of a generator step, every `mkdir`/`write_text` is inside a reporting
`try`, there is at least one write, and `Code generated to:` precedes `return 0`. -/
theorem all_targets_well_handled :
    all.all (fun sk => wellHandled sk && decide (0 < sk.writes) && sk.doneLine &&
      decide (0 < sk.steps.length)) = true := by
  decide

open AasVerif.Gen.Generators in
/-- Every SDK target starts with its `verify_for_types`, whose errors are reported (the state
"verified symbol table … must be checked before use" of the property); the two schema targets
have the single generating call. -/
theorem verification_comes_first :
    all.all (fun sk =>
      match sk.checks with
      | c :: _ => c.call == sk.target ++ "_lib.verify_for_types" && c.handling == .reported
      | [] => sk.steps.length == 1 && (sk.target == "jsonschema" || sk.target == "xsd")) = true := by
  decide

open AasVerif.Gen.Generators in
/-- **C02 (plumbing) for the current source**: for each of the eight `execute` functions and ALL
outcome combinations of its steps, the run never crashes, and any failing step leads to a non-zero
exit with a report. -/
theorem generators_report_every_error :
    ∀ sk ∈ all, ∀ (failed : Nat → Bool) (out : Nat → StepOut),
      isCrash (execute sk failed out) = false ∧
      (((∃ j, j < sk.checks.length ∧ failed j = true) ∨
        (∃ j, ∃ (hj : j < sk.steps.length), eff sk.steps[j] (out j) ≠ .ok)) →
        ∃ k n, execute sk failed out = .exit1 k n) := by
  intro sk hsk failed out
  have hw : wellHandled sk = true := by
    have h := all_targets_well_handled
    rw [List.all_eq_true] at h
    have := h sk hsk
    simp only [Bool.and_eq_true] at this
    exact this.1.1.1
  refine ⟨?_, error_means_reported_nonzero_exit sk hw failed out⟩
  cases hr : execute sk failed out with
  | crash site => exact absurd hr (never_crashes sk hw failed out site)
  | exit0 => rfl
  | exit1 k n => rfl

/-- Non-vacuity: the model distinguishes the outcomes on a real skeleton. -/
example : execute Gen.Generators.python (fun i => i == 3) (fun _ => .ok) = .exit1 .check 3 := by decide
example : execute Gen.Generators.xsd (fun _ => false) (fun _ => .writeFail) = .exit1 .write 0 := by decide
example : execute Gen.Generators.jsonschema (fun _ => false) (fun _ => .ok) = .exit0 := by decide

end AasVerif.Props.C02
