import AasVerif.Lemmas.InferSafe
import AasVerif.Gen.Infer
/-!
# C07 — type-checked invariants cannot fail at run time

`infer` (`Model/Expr/Infer.lean`) is the faithful model of `type_inference._Inferrer`, `eval`
(`Model/Expr/Eval.lean`, shared with C08) the Python meaning of an invariant, `HasTy` /
`Conforms` (`Model/Expr/Conforms.lean`) "the instance conforms to the declared types".
-/
namespace AasVerif.Props.C07
open AasVerif AasVerif.Expr

/-! ## Full strength (FALSE of the faithful model)

    sound : inferC Γ e = ok τ → Conforms ρ Γ → eval ρ e ∈ {val v | v : τ} ∪ {indexError}
-/

/-- The property as stated: an accepted invariant evaluates, on a conforming instance, to a
value of the inferred type, or raises `IndexError`. -/
def Sound : Prop :=
  ∀ (D : Decls) (self : Text) (ρ : Env) (e : Expr) (τ : Ty),
    inferC (TEnv.forSelf D self) e = .ok τ → D.WF → Conforms ρ (TEnv.forSelf D self) → EnvSafe ρ →
    CallsConform ρ (TEnv.forSelf D self) →
    eval ρ e = .indexError ∨ ∃ v, eval ρ e = .val v ∧ HasTy D v τ

/-! ### The witness `self.s < 1` with `s : str` -/

def t (s : String) : Text := Text.ofString s

/-- one class `C` with one property `s : str` -/
def D0 : Decls :=
  { ours := [(t "C", .cls { props := [(t "s", .prim .str)], methods := [], descendants := [] })], fns := [], consts := [] }

/-- `self.s < 1` -/
def e0 : Expr := .cmp (.member (.name (t "self")) (t "s")) .lt (.const (.int 1))

def fops0 : FloatOps :=
  { cmp := fun _ _ _ => .typeError, arith := fun _ _ _ => .typeError, isZero := fun _ => false, fmt := fun r => r }

/-- `self = C(s="a")` -/
def ρ0 : Env :=
  { vars := [(t "self", .inst 0 (t "C") [(t "s", .str (t "a"))])], funs := fun _ => none, meths := fun _ _ => none,
    fops := fops0, fmtOther := fun _ => .otherError }

/-- the inferrer accepts the witness with type `bool` … -/
theorem witness_accepted : inferC (TEnv.forSelf D0 (t "C")) e0 = .ok .bool := by decide

/-- … and CPython raises `TypeError` on it -/
theorem witness_typeError : (match eval ρ0 e0 with | .typeError => true | _ => false) = true := by decide

theorem D0_wf : D0.WF := by
  intro c cd p τ hc hp
  simp only [Decls.findOur, D0, assoc] at hc
  split at hc
  · cases hc
    simp only [assoc] at hp
    split at hp
    · cases hp; rfl
    · cases hp
  · cases hc

theorem scope0 : (TEnv.forSelf D0 (t "C")).scope =
    [(selfName, .our (t "C")), (lenName, .builtin lenName (.prim .length))] := rfl

theorem ρ0_conforms : Conforms ρ0 (TEnv.forSelf D0 (t "C")) := by
  intro x τ h
  simp only [TEnv.find, scope0, assoc] at h
  split at h
  · cases h
    right
    rename_i hx
    refine ⟨.inst 0 (t "C") [(t "s", .str (t "a"))], by simp [ρ0, lookup, ← hx, selfName, t, Text.ofString], ?_⟩
    refine HasTy.inst (cd := { props := [(t "s", .prim .str)], methods := [], descendants := [] }) rfl ?_ ?_
    · intro p τ hp
      simp only [assoc] at hp
      split at hp
      · rename_i hps; simp [lookup, ← hps]
      · cases hp
    · intro p τ w hp hw
      simp only [assoc] at hp
      split at hp
      · rename_i hps
        cases hp
        simp [lookup, ← hps] at hw
        subst hw
        exact HasTy.str _
      · cases hp
  · split at h
    · cases h; left; rfl
    · cases h

theorem ρ0_safe : EnvSafe ρ0 :=
  { funs := by intro n f vs h; simp [ρ0] at h
    meths := by intro r n f vs h; simp [ρ0] at h
    cmp := by intro op a b; simp [ρ0, fops0]
    arith := by intro ad a b; simp [ρ0, fops0]
    fmt := by intro v; simp [ρ0] }

theorem ρ0_calls : CallsConform ρ0 (TEnv.forSelf D0 (t "C")) :=
  { impl := by
      intro n m ret h
      simp only [TEnv.find, scope0, assoc] at h
      repeat' split at h
      all_goals cases h
    builtin := by
      intro n m ret h
      simp only [TEnv.find, scope0, assoc] at h
      repeat' split at h
      all_goals cases h
      exact ⟨_, rfl⟩
    funs := by intro n m ret f vs v _ h; simp [ρ0] at h
    meths := by intro r c cd n ret f vs v _ _ _ h; simp [ρ0] at h }

/-- **The full-strength statement is false**: `self.s < 1` with `s : str` is accepted and raises
`TypeError` on `self = C(s="a")`  (finding `C07:unchecked:comparison-operand-types`). -/
theorem sound_full_fails : ¬ Sound := by
  intro h
  have hw := witness_typeError
  rcases h D0 (t "C") ρ0 e0 .bool witness_accepted D0_wf ρ0_conforms ρ0_safe ρ0_calls with h | ⟨v, hv, _⟩
  · rw [h] at hw; simp at hw
  · rw [hv] at hw; simp at hw

/-! ## What the inferrer does enforce: no `AttributeError` on `None`

The narrowing logic (facts from `is not None` conjuncts flowing through `and` chains and
implication antecedents, from `is None` disjuncts through `or`, keyed by canonical
representations) is sound. -/

/-- **none_safety** (fragment without `any`/`all`): an accepted invariant never dereferences
`None` on a conforming instance — *without* any assumption on operand types, boolean contexts
or call arguments.  `key` is the inferrer's key of a node (the real one: `canon`); what is
needed of it is injectivity (two different expressions never share a key). -/
theorem none_safety_noquant {key : Expr → Text} (hk : Function.Injective key)
    (Γ : TEnv) (ρ : Env) (e : Expr) (τ : Ty) (hq : noQuant e = true)
    (hwf : Γ.decls.WF) (hconf : Conforms ρ Γ) (hsafe : EnvSafe ρ) (hcalls : CallsConform ρ Γ)
    (h : infer key Γ [] e = .ok τ) : eval ρ e ≠ .noneDeref :=
  (safe_expr hk e Γ [] ρ τ hq
    { conf := hconf, wf := hwf, safe := hsafe, calls := hcalls, facts := by intro e he; simp at he } h).1

/-! ## The tables read off the source agree with the model -/

/-- the `self.errors.append` sites of `_Inferrer`, per method, are the ones the model was written from
(a check added to or removed from the inferrer changes this table) -/
theorem errSites_methods :
    Gen.Infer.errSites = [("_transform_add_or_sub", 5), ("_transform_any_or_all", 1), ("transform_and", 1),
      ("transform_assignment", 1), ("transform_comparison", 2), ("transform_for_each", 3), ("transform_for_range", 5),
      ("transform_formatted_value", 1), ("transform_function_call", 1), ("transform_implication", 1),
      ("transform_index", 4), ("transform_is_in", 2), ("transform_is_none", 1), ("transform_is_not_none", 1),
      ("transform_member", 5), ("transform_method_call", 2), ("transform_name", 1), ("transform_not", 1),
      ("transform_or", 1)] := by decide

/-- `_needs_no_brackets` of the source is the model's `needsNoBrackets` -/
theorem needsNoBrackets_table :
    Gen.Infer.needsNoBrackets = ["All", "Any", "Constant", "FunctionCall", "JoinedStr", "Member", "MethodCall", "Name"] := by
  decide

theorem numeric_tables :
    Gen.Infer.indexTypes = ["INT", "LENGTH"] ∧ Gen.Infer.rangeTypes = ["INT", "LENGTH"] ∧
      Gen.Infer.arithTypes = ["FLOAT", "INT", "LENGTH"] := by decide

end AasVerif.Props.C07
