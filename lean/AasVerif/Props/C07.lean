import AasVerif.Lemmas.InferSafe
import AasVerif.Lemmas.BoolForm
import AasVerif.Gen.Infer
/-!
# C07 — type-checked invariants cannot fail at run time

`infer` (`Model/Expr/Infer.lean`) is the faithful model of `type_inference._Inferrer`, `eval`
(`Model/Expr/Eval.lean`, shared with C08) the Python meaning of an invariant, `HasTy` /
`Conforms` (`Model/Expr/Conforms.lean`) "the instance conforms to the declared types".
-/
namespace AasVerif.Props.C07
open AasVerif AasVerif.Expr

/-! ## Full strength (FALSE of the faithful model)

    sound : inferC Γ e = ok τ → Conforms ρ Γ → eval ρ e ∈ {val v | v : τ} ∪ {indexError}
-/

/-- The property as stated: an accepted invariant evaluates, on a conforming instance, to a
value of the inferred type, or raises `IndexError`. -/
def Sound : Prop :=
  ∀ (D : Decls) (self : Text) (ρ : Env) (e : Expr) (τ : Ty),
    inferC (TEnv.forSelf D self) e = .ok τ → D.WF → Conforms ρ (TEnv.forSelf D self) → EnvSafe ρ →
    CallsConform ρ (TEnv.forSelf D self) →
    eval ρ e = .indexError ∨ ∃ v, eval ρ e = .val v ∧ HasTy D v τ

/-! ### The witness `self.s < 1` with `s : str` -/

def t (s : String) : Text := Text.ofString s

/-- one class `C` with one property `s : str` -/
def D0 : Decls :=
  { ours := [(t "C", .cls { props := [(t "s", .prim .str)], methods := [], descendants := [] })], fns := [], consts := [] }

/-- `self.s < 1` -/
def e0 : Expr := .cmp (.member (.name (t "self")) (t "s")) .lt (.const (.int 1))

def fops0 : FloatOps :=
  { cmp := fun _ _ _ => .typeError, arith := fun _ _ _ => .typeError, isZero := fun _ => false, fmt := fun r => r }

/-- `self = C(s="a")` -/
def ρ0 : Env :=
  { vars := [(t "self", .inst 0 (t "C") [(t "s", .str (t "a"))])], funs := fun _ => none, meths := fun _ _ => none,
    fops := fops0, fmtOther := fun _ => .otherError }

/-- the inferrer accepts the witness with type `bool` … -/
theorem witness_accepted : inferC (TEnv.forSelf D0 (t "C")) e0 = .ok .bool := by decide

/-- … and CPython raises `TypeError` on it -/
theorem witness_typeError : (match eval ρ0 e0 with | .typeError => true | _ => false) = true := by decide

theorem D0_wf : D0.WF := by
  intro c cd p τ hc hp
  simp only [Decls.findOur, D0, assoc] at hc
  split at hc
  · cases hc
    simp only [assoc] at hp
    split at hp
    · cases hp; rfl
    · cases hp
  · cases hc

theorem scope0 : (TEnv.forSelf D0 (t "C")).scope =
    [(selfName, .our (t "C")), (lenName, .builtin lenName (.prim .length))] := rfl

theorem ρ0_conforms : Conforms ρ0 (TEnv.forSelf D0 (t "C")) := by
  intro x τ h
  simp only [TEnv.find, scope0, assoc] at h
  split at h
  · cases h
    right
    rename_i hx
    refine ⟨.inst 0 (t "C") [(t "s", .str (t "a"))], by simp [ρ0, lookup, ← hx, selfName, t, Text.ofString], ?_⟩
    refine HasTy.inst (cd := { props := [(t "s", .prim .str)], methods := [], descendants := [] }) rfl ?_ ?_
    · intro p τ hp
      simp only [assoc] at hp
      split at hp
      · rename_i hps; simp [lookup, ← hps]
      · cases hp
    · intro p τ w hp hw
      simp only [assoc] at hp
      split at hp
      · rename_i hps
        cases hp
        simp [lookup, ← hps] at hw
        subst hw
        exact HasTy.str _
      · cases hp
  · split at h
    · cases h; left; rfl
    · cases h

theorem ρ0_safe : EnvSafe ρ0 :=
  { funs := by intro n f vs h; simp [ρ0] at h
    meths := by intro r n f vs h; simp [ρ0] at h
    cmp := by intro op a b; simp [ρ0, fops0]
    arith := by intro ad a b; simp [ρ0, fops0]
    fmt := by intro v; simp [ρ0] }

theorem ρ0_calls : CallsConform ρ0 (TEnv.forSelf D0 (t "C")) :=
  { impl := by
      intro n m ret h
      simp only [TEnv.find, scope0, assoc] at h
      repeat' split at h
      all_goals cases h
    builtin := by
      intro n m ret h
      simp only [TEnv.find, scope0, assoc] at h
      repeat' split at h
      all_goals cases h
      exact ⟨_, rfl⟩
    funs := by intro n m ret f vs v _ h; simp [ρ0] at h
    meths := by intro r c cd n ret f vs v _ _ _ h; simp [ρ0] at h }

/-- **The full-strength statement is false**: `self.s < 1` with `s : str` is accepted and raises
`TypeError` on `self = C(s="a")`  (finding `C07:unchecked:comparison-operand-types`). -/
theorem sound_full_fails : ¬ Sound := by
  intro h
  have hw := witness_typeError
  rcases h D0 (t "C") ρ0 e0 .bool witness_accepted D0_wf ρ0_conforms ρ0_safe ρ0_calls with h | ⟨v, hv, _⟩
  · rw [h] at hw; simp at hw
  · rw [hv] at hw; simp at hw

/-! ## What the inferrer does enforce: no `AttributeError` on `None`

The narrowing logic (facts from `is not None` conjuncts flowing through `and` chains and
implication antecedents, from `is None` disjuncts through `or`, into generators, keyed by
canonical representations) is sound. -/

/-- **none_safety** (whole expression language, `any`/`all` included): an invariant the
inferrer accepts never dereferences `None` (`AttributeError` on `None` for a member or a
method) on an instance that conforms to the declared types — *without* any assumption on
operand types, boolean contexts or call arguments (the checks the inferrer lacks).

`key` is the inferrer's key of a node (`_representation_map`; the real one is `canon`, see
`inferC`); what is needed of it is `KeySound`: expressions that share a key have the same value
(injective keys trivially; the real canonical strings identify `f"x"` with `"x"`).
`EnvSafe` / `CallsConform` are about the *parameters* of the evaluation (verification
functions, methods, float arithmetic): they do not raise `AttributeError` on `None` themselves
and return values of their declared return type. -/
theorem none_safety {κ : Type} [DecidableEq κ] {key : Expr → κ} (hk : KeySound key)
    (Γ : TEnv) (ρ : Env) (e : Expr) (τ : Ty)
    (hwf : Γ.decls.WF) (hconf : Conforms ρ Γ) (hsafe : EnvSafe ρ) (hcalls : CallsConform ρ Γ)
    (h : infer key Γ [] e = .ok τ) : eval ρ e ≠ .noneDeref :=
  (safe_expr hk e Γ [] ρ τ
    { conf := hconf, wf := hwf, safe := hsafe, calls := hcalls, facts := by intro e he; simp at he } h).1

/-- Values of the types the inferrer does track reliably (classes, enumerations, lists,
`Optional`s — everything but primitives and functions) are of the inferred type: the part of
`Sound` that holds unconditionally. -/
theorem sound_nonprimitive {κ : Type} [DecidableEq κ] {key : Expr → κ} (hk : KeySound key)
    (Γ : TEnv) (ρ : Env) (e : Expr) (τ : Ty) (v : Val)
    (hwf : Γ.decls.WF) (hconf : Conforms ρ Γ) (hsafe : EnvSafe ρ) (hcalls : CallsConform ρ Γ)
    (h : infer key Γ [] e = .ok τ) (hτ : τ.isLoose = false) (hv : eval ρ e = .val v) : HasTy Γ.decls v τ := by
  have g := (safe_expr hk e Γ [] ρ τ
    { conf := hconf, wf := hwf, safe := hsafe, calls := hcalls, facts := by intro e he; simp at he } h).2 v hv
  rcases g with g | g
  · rw [hτ] at g; cases g
  · exact g

section
open Classical

/-- Non-vacuity of the key hypothesis: an inferrer that keys its facts by the expressions
themselves (`key = id`) is none-safe.  (For the real keys, `canon`, injectivity on the
sub-expressions of every generated invariant is checked by the correspondence harness:
stream `canon-injective`.) -/
theorem none_safety_structural_keys (Γ : TEnv) (ρ : Env) (e : Expr) (τ : Ty)
    (hwf : Γ.decls.WF) (hconf : Conforms ρ Γ) (hsafe : EnvSafe ρ) (hcalls : CallsConform ρ Γ)
    (h : infer (fun e => e) Γ [] e = .ok τ) : eval ρ e ≠ .noneDeref :=
  none_safety (KeySound.of_injective (fun _ _ h => h)) Γ ρ e τ hwf hconf hsafe hcalls h

end

/-- The real inferrer (`canon` keys) under the one thing the proof needs of `canon` — which is
*validated, not verified*: the harness checks on every generated invariant that sub-expressions
with equal canonical strings are equal up to `f"lit"` = `"lit"`.  (It does not hold for
identifiers that contain `.`, brackets or spaces, which the Python parser cannot produce.) -/
theorem none_safety_canon (hcanon : KeySound canon) (D : Decls) (self : Text) (ρ : Env) (e : Expr) (τ : Ty)
    (hwf : D.WF) (hconf : Conforms ρ (TEnv.forSelf D self)) (hsafe : EnvSafe ρ)
    (hcalls : CallsConform ρ (TEnv.forSelf D self)) (h : inferC (TEnv.forSelf D self) e = .ok τ) :
    eval ρ e ≠ .noneDeref :=
  none_safety hcanon (TEnv.forSelf D self) ρ e τ hwf hconf hsafe hcalls h

/-! ### Non-vacuity: narrowing at work on a conforming instance -/

/-- `C` with `s : str` and `o : Optional[C]` -/
def D1 : Decls :=
  { ours := [(t "C", .cls { props := [(t "s", .prim .str), (t "o", .opt (.our (t "C")))], methods := [], descendants := [] })],
    fns := [], consts := [] }

def selfE : Expr := .name (t "self")

/-- `self.o is None or self.o.s == "a"` — accepted through the `is None or …` narrowing -/
def e1 : Expr := .or [.isNone (.member selfE (t "o")), .cmp (.member (.member selfE (t "o")) (t "s")) .eq (.const (.str (t "a")))]

/-- `not (self.o is not None) or len(self.o.s) > 0` — implication antecedent -/
def e2 : Expr :=
  .impl (.isNotNone (.member selfE (t "o")))
    (.cmp (.funCall lenName [.member (.member selfE (t "o")) (t "s")]) .gt (.const (.int 0)))

/-- the unguarded use is rejected -/
def e3 : Expr := .cmp (.member (.member selfE (t "o")) (t "s")) .eq (.const (.str (t "a")))

/-- the guard in the consequent instead of the antecedent is rejected -/
def e4 : Expr := .impl (.cmp (.member (.member selfE (t "o")) (t "s")) .eq (.const (.str (t "a")))) (.isNotNone (.member selfE (t "o")))

example : inferC (TEnv.forSelf D1 (t "C")) e1 = .ok .bool := by decide
example : inferC (TEnv.forSelf D1 (t "C")) e2 = .ok .bool := by decide
example : inferC (TEnv.forSelf D1 (t "C")) e3 = .err [.instanceOptional] := by decide
example : inferC (TEnv.forSelf D1 (t "C")) e4 = .err [.instanceOptional] := by decide

/-- `self = C(s="a", o=None)` and `self = C(s="a", o=C(s="b", o=None))` -/
def inner : Val := .inst 1 (t "C") [(t "s", .str (t "b")), (t "o", .none)]
def ρ1 (o : Val) : Env := { ρ0 with vars := [(t "self", .inst 0 (t "C") [(t "s", .str (t "a")), (t "o", o)])] }

example : (match eval (ρ1 .none) e1 with | .val (.bool true) => true | _ => false) = true := by decide
example : (match eval (ρ1 inner) e1 with | .val (.bool false) => true | _ => false) = true := by decide
example : (match eval (ρ1 inner) e2 with | .val (.bool true) => true | _ => false) = true := by decide
/-- and the rejected one does dereference `None` -/
example : (match eval (ρ1 .none) e3 with | .noneDeref => true | _ => false) = true := by decide

/-! ## Boolean contexts (finding C07-F2) and what holds instead -/

/-- `self.s and self.s` with `s : str`: accepted as `bool` … -/
def e5 : Expr := .and [.member (.name (t "self")) (t "s"), .member (.name (t "self")) (t "s")]

theorem bool_context_accepted : inferC (TEnv.forSelf D0 (t "C")) e5 = .ok .bool := by decide

/-- … and evaluates to the string `"a"`: the inferred type `bool` is wrong
(finding `C07:unchecked:bool-context`). -/
theorem bool_context_fails : (match eval ρ0 e5 with | .val (.str _) => true | _ => false) = true := by decide

/-- **sound_partial, boolean part**: if the invariant is *syntactically boolean* (`boolForm`:
comparisons, `in`, `is (not) None`, `not`, `any`/`all`, `bool` constants, combined by `and`/`or`/
implication consequents) then, whatever the operand types, its value — if it has one — is a `bool`. -/
theorem bool_result_partial (ρ : Env) (hf : ∀ op a b, IsBoolOut (ρ.fops.cmp op a b)) (e : Expr)
    (h : boolForm e = true) (v : Val) (hv : eval ρ e = .val v) : ∃ b, v = .bool b :=
  bool_result ρ hf e h v hv

/-- Together with `none_safety`: an accepted, syntactically boolean invariant yields a `bool` or
raises `TypeError` / `IndexError` / another error — never `AttributeError` on `None`.  (Excluding
the `TypeError` needs the operand checks the inferrer lacks: findings F1, F3, F4.) -/
theorem accepted_boolForm_outcomes {κ : Type} [DecidableEq κ] {key : Expr → κ} (hk : KeySound key)
    (Γ : TEnv) (ρ : Env) (e : Expr) (τ : Ty)
    (hwf : Γ.decls.WF) (hconf : Conforms ρ Γ) (hsafe : EnvSafe ρ) (hcalls : CallsConform ρ Γ)
    (hf : ∀ op a b, IsBoolOut (ρ.fops.cmp op a b)) (hb : boolForm e = true)
    (h : infer key Γ [] e = .ok τ) :
    (∃ b, eval ρ e = .val (.bool b)) ∨ eval ρ e = .typeError ∨ eval ρ e = .indexError ∨ eval ρ e = .otherError := by
  have hn := none_safety hk Γ ρ e τ hwf hconf hsafe hcalls h
  cases hev : eval ρ e with
  | val v =>
    obtain ⟨b, rfl⟩ := bool_result ρ hf e hb v hev
    exact Or.inl ⟨b, rfl⟩
  | noneDeref => exact absurd hev hn
  | typeError => exact Or.inr (Or.inl rfl)
  | indexError => exact Or.inr (Or.inr (Or.inl rfl))
  | otherError => exact Or.inr (Or.inr (Or.inr rfl))

example : boolForm e1 = true ∧ boolForm e2 = true ∧ boolForm e5 = false := by decide

/-! ## The tables read off the source agree with the model -/

/-- the `self.errors.append` sites of `_Inferrer`, per method, are the ones the model was written from
(a check added to or removed from the inferrer changes this table) -/
theorem errSites_methods :
    Gen.Infer.errSites = [("_transform_add_or_sub", 5), ("_transform_any_or_all", 1), ("transform_and", 1),
      ("transform_assignment", 1), ("transform_comparison", 2), ("transform_for_each", 3), ("transform_for_range", 5),
      ("transform_formatted_value", 1), ("transform_function_call", 1), ("transform_implication", 1),
      ("transform_index", 4), ("transform_is_in", 2), ("transform_is_none", 1), ("transform_is_not_none", 1),
      ("transform_member", 5), ("transform_method_call", 2), ("transform_name", 1), ("transform_not", 1),
      ("transform_or", 1)] := by decide

/-- `_needs_no_brackets` of the source is the model's `needsNoBrackets` -/
theorem needsNoBrackets_table :
    Gen.Infer.needsNoBrackets = ["All", "Any", "Constant", "FunctionCall", "JoinedStr", "Member", "MethodCall", "Name"] := by
  decide

theorem numeric_tables :
    Gen.Infer.indexTypes = ["INT", "LENGTH"] ∧ Gen.Infer.rangeTypes = ["INT", "LENGTH"] ∧
      Gen.Infer.arithTypes = ["FLOAT", "INT", "LENGTH"] := by decide

end AasVerif.Props.C07
