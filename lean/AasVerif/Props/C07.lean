import AasVerif.Lemmas.InferSafe
import AasVerif.Lemmas.BoolForm
import AasVerif.Lemmas.DeclsWF
import AasVerif.Gen.Infer
/-!
# C07 — type-checked invariants cannot fail at run time

`infer` / `inferInv` (`Model/Expr/Infer.lean`) is the faithful model of `type_inference._Inferrer` /
`infer_for_invariant`, `acceptsPy` adds the one check on the types that the Python transpiler makes
itself (`len`), `eval` (`Model/Expr/Eval.lean`, shared with C08) is the Python meaning of an
invariant, `HasTy` / `Conforms` (`Model/Expr/Conforms.lean`) "the instance conforms to the declared
types".

Since the repairs of the findings C07-F1 … F4 (operand types of ordering comparisons and of `in`,
boolean contexts, call arguments) the full statement holds of the model: `sound`.
-/
namespace AasVerif.Props.C07
open AasVerif AasVerif.Expr

/-! ## The property -/

/-- The property as stated: an invariant that the Python generator accepts evaluates, on an instance
that conforms to the declared types, to a boolean — or raises `IndexError`, which no type system
can exclude.  (No `TypeError`, no `AttributeError`, on `None` or otherwise, no other exception.)

Hypotheses: `e.wf` — what the parser produces (`and` / `or` have operands); `noFnValuesB` — no
function or bound method is used as a first-class value (`len == len`; CPython has such values, the
evaluator `Eval.lean` has not; the harness evaluates those invariants in CPython); `D.WF` — decidable
(`Decls.wfb`, `wfb_sound`), evaluated by the harness on every real symbol table; `Conforms` — the
instance; `EnvOK`, `CallsOK` — the *parameters* of the evaluation (float operations, formatting,
verification functions, methods): implemented, and well-behaved on arguments of their declared types. -/
def Sound : Prop :=
  ∀ (D : Decls) (self : Text) (ρ : Env) (e : Expr) (τ : Ty),
    acceptsPy (TEnv.forSelf D self) e = .ok τ →
    e.wf = true → noFnValuesB canon (TEnv.forSelf D self).withBackend [] e = true →
    D.WF → Conforms ρ (TEnv.forSelf D self) → EnvOK ρ → CallsOK ρ (TEnv.forSelf D self) →
    eval ρ e = .indexError ∨ ∃ b, eval ρ e = .val (.bool b)

/-- **Type soundness of the inferrer** (whole expression language, `any`/`all` included, any key
function with `KeySound`): an accepted expression evaluates to a value *of the inferred type*, or
raises `IndexError`. -/
theorem sound_typed {κ : Type} [DecidableEq κ] {key : Expr → κ} (hk : KeySound key)
    (Γ : TEnv) (ρ : Env) (e : Expr) (τ : Ty) (hb : Γ.backend = true)
    (hw : e.wf = true) (hfn : noFnValuesB key Γ [] e = true)
    (hwf : Γ.decls.WF) (hconf : Conforms ρ Γ) (hok : EnvOK ρ) (hcalls : CallsOK ρ Γ)
    (h : infer key Γ [] e = .ok τ) :
    eval ρ e = .indexError ∨ ∃ v, eval ρ e = .val v ∧ HasTy Γ.decls v τ :=
  safe_expr hk e Γ [] ρ τ
    { conf := hconf, wf := hwf, ok := hok, calls := hcalls, facts := by intro e he; simp at he } hb hw hfn h

theorem inferInv_ok {κ : Type} [DecidableEq κ] {key : Expr → κ} {Γ : TEnv} {e : Expr} {τ : Ty}
    (h : inferInv key Γ e = .ok τ) : infer key Γ [] e = .ok τ ∧ Γ.decls.isBool τ = true := by
  unfold inferInv at h
  cases hi : infer key Γ [] e with
  | ok σ =>
    simp only [hi] at h
    by_cases hb : Γ.decls.isBool σ = true
    · simp only [hb, if_true, Res.ok.injEq] at h
      subst h
      exact ⟨rfl, hb⟩
    · simp [hb] at h
  | err es => simp [hi] at h
  | crash s => simp [hi] at h

/-- The invariant-level statement for any sound key function. -/
theorem sound_invariant {κ : Type} [DecidableEq κ] {key : Expr → κ} (hk : KeySound key)
    (Γ : TEnv) (ρ : Env) (e : Expr) (τ : Ty) (hb : Γ.backend = true)
    (hw : e.wf = true) (hfn : noFnValuesB key Γ [] e = true)
    (hwf : Γ.decls.WF) (hconf : Conforms ρ Γ) (hok : EnvOK ρ) (hcalls : CallsOK ρ Γ)
    (h : inferInv key Γ e = .ok τ) :
    eval ρ e = .indexError ∨ ∃ b, eval ρ e = .val (.bool b) := by
  obtain ⟨hi, hbool⟩ := inferInv_ok h
  rcases sound_typed hk Γ ρ e τ hb hw hfn hwf hconf hok hcalls hi with he | ⟨v, he, hv⟩
  · exact Or.inl he
  · obtain ⟨b, rfl⟩ := isBool_inv hv hbool
    exact Or.inr ⟨b, he⟩

/-- **sound**: the property, for the real keys (`canon`) under the one thing the proof needs of
them — which is *validated, not verified*: the harness checks on every generated invariant that
sub-expressions with equal canonical strings are equal up to `f"lit"` = `"lit"` (stream
`canon-injective`).  (It does not hold for identifiers that contain `.`, brackets or spaces, which
the Python parser cannot produce.) -/
theorem sound (hcanon : KeySound canon) : Sound := by
  intro D self ρ e τ hacc hw hfn hwf hconf hok hcalls
  exact sound_invariant hcanon (TEnv.forSelf D self).withBackend ρ e τ rfl hw hfn hwf hconf hok
    { notVar := hcalls.notVar, builtin := hcalls.builtin, funs := hcalls.funs, meths := hcalls.meths } hacc

/-- In particular no `TypeError`, no `AttributeError` on `None`, no other exception. -/
theorem never_raises (hcanon : KeySound canon) (D : Decls) (self : Text) (ρ : Env) (e : Expr) (τ : Ty)
    (hacc : acceptsPy (TEnv.forSelf D self) e = .ok τ)
    (hw : e.wf = true) (hfn : noFnValuesB canon (TEnv.forSelf D self).withBackend [] e = true)
    (hwf : D.WF) (hconf : Conforms ρ (TEnv.forSelf D self)) (hok : EnvOK ρ)
    (hcalls : CallsOK ρ (TEnv.forSelf D self)) :
    (match eval ρ e with | .typeError | .noneDeref | .otherError => False | _ => True) := by
  rcases sound hcanon D self ρ e τ hacc hw hfn hwf hconf hok hcalls with h | ⟨b, h⟩ <;> rw [h] <;> trivial

/-- **none_safety** (now a corollary): an accepted expression never dereferences `None`. -/
theorem none_safety {κ : Type} [DecidableEq κ] {key : Expr → κ} (hk : KeySound key)
    (Γ : TEnv) (ρ : Env) (e : Expr) (τ : Ty) (hb : Γ.backend = true)
    (hw : e.wf = true) (hfn : noFnValuesB key Γ [] e = true)
    (hwf : Γ.decls.WF) (hconf : Conforms ρ Γ) (hok : EnvOK ρ) (hcalls : CallsOK ρ Γ)
    (h : infer key Γ [] e = .ok τ) : eval ρ e ≠ .noneDeref := by
  rcases sound_typed hk Γ ρ e τ hb hw hfn hwf hconf hok hcalls h with he | ⟨v, he, _⟩ <;> rw [he] <;> simp

section
open Classical

/-- Non-vacuity of the key hypothesis: an inferrer that keys its facts by the expressions
themselves (`key = id`) is sound. -/
theorem sound_structural_keys (Γ : TEnv) (ρ : Env) (e : Expr) (τ : Ty) (hb : Γ.backend = true)
    (hw : e.wf = true) (hfn : noFnValuesB (fun e => e) Γ [] e = true)
    (hwf : Γ.decls.WF) (hconf : Conforms ρ Γ) (hok : EnvOK ρ) (hcalls : CallsOK ρ Γ)
    (h : inferInv (fun e => e) Γ e = .ok τ) :
    eval ρ e = .indexError ∨ ∃ b, eval ρ e = .val (.bool b) :=
  sound_invariant (KeySound.of_injective (fun _ _ h => h)) Γ ρ e τ hb hw hfn hwf hconf hok hcalls h

end

/-- The decidable check of the declarations that the harness evaluates on every real symbol table
implies the hypothesis `D.WF`. -/
theorem wfb_sound (D : Decls) (h : D.wfb = true) : D.WF := Decls.wfb_sound h

/-- The Python transpiler's check comes on top of the inference: what `acceptsPy` accepts, the
inferrer accepts with the same type. -/
theorem acceptsPy_inferInv (Γ : TEnv) (e : Expr) (τ : Ty) (h : acceptsPy Γ e = .ok τ) :
    ∃ σ, infer canon Γ.withBackend [] e = .ok σ ∧ Γ.decls.isBool σ = true :=
  ⟨τ, inferInv_ok h⟩

/-! ## The former findings: the witnesses are rejected now — and would indeed fail -/

def t (s : String) : Text := Text.ofString s

def cd0 : ClassDecl :=
  { props := [(t "s", .prim .str), (t "n", .prim .int), (t "o", .opt (.prim .str))], methods := [], mparams := [],
    descendants := [] }

/-- one class `C` with the properties `s : str`, `n : int`, `o : Optional[str]`, one function `is_word(text: str) -> bool` -/
def D0 : Decls :=
  { ours := [(t "C", .cls cd0)],
    fns := [{ name := t "is_word", params := [.prim .str], returns := .prim .bool }], consts := [] }

def selfE : Expr := .name (t "self")
def Γ0 : TEnv := TEnv.forSelf D0 (t "C")

/-- F1 `self.s < 1` -/
def e0 : Expr := .cmp (.member selfE (t "s")) .lt (.const (.int 1))
/-- F2 `self.n and self.s` -/
def e5 : Expr := .and [.member selfE (t "n"), .member selfE (t "s")]
/-- F2 the body `self.s` -/
def e6 : Expr := .member selfE (t "s")
/-- F3 `len(self.o) > 0` -/
def e7 : Expr := .cmp (.funCall lenName [.member selfE (t "o")]) .gt (.const (.int 0))
/-- F3 `is_word(self.n)`, `is_word()` -/
def e8 : Expr := .funCall (t "is_word") [.member selfE (t "n")]
def e9 : Expr := .funCall (t "is_word") []
/-- F3, Python transpiler: `len(self) > 0` -/
def e10 : Expr := .cmp (.funCall lenName [selfE]) .gt (.const (.int 0))
/-- F4 `self.n in self.n`, `self.n in self.s` -/
def e11 : Expr := .isIn (.member selfE (t "n")) (.member selfE (t "n"))
def e12 : Expr := .isIn (.member selfE (t "n")) (.member selfE (t "s"))

theorem F1_rejected : inferInvC Γ0 e0 = .err [.cmpNotOrderable] := by decide
theorem F2_rejected : inferInvC Γ0 e5 = .err [.valueNotBool, .valueNotBool] ∧ inferInvC Γ0 e6 = .err [.bodyNotBool] := by
  decide
theorem F3_rejected : inferInvC Γ0 e7 = .err [.lenArgOptional] ∧ inferInvC Γ0 e8 = .err [.argNotPassable] ∧
    inferInvC Γ0 e9 = .err [.argCount] := by decide
/-- the inferrer leaves the kind of the argument of `len` to the transpilers; the Python one refuses it -/
theorem F3_len_kind : inferInvC Γ0 e10 = .ok .bool ∧ acceptsPy Γ0 e10 = .err [.lenKind] := by decide
theorem F4_rejected : inferInvC Γ0 e11 = .err [.containerNotContainer] ∧ inferInvC Γ0 e12 = .err [.memberNotSamePrim] := by
  decide

def fops0 : FloatOps :=
  { cmp := fun _ _ _ => .val (.bool false), arith := fun _ _ _ => .val (.float []), isZero := fun _ => false, fmt := fun r => r }

/-- `self = C(s="a", n=0, o=None)` -/
def ρ0 : Env :=
  { vars := [(t "self", .inst 0 (t "C") [(t "s", .str (t "a")), (t "n", .int 0), (t "o", .none)])],
    funs := fun n => if n = t "is_word" then some (fun _ => .val (.bool true)) else none,
    meths := fun _ _ => none, fops := fops0, fmtOther := fun _ => .val (.str []) }

/-- the rejected witnesses do fail in Python: `TypeError` (F1, F3, F4), a non-boolean (F2) -/
theorem rejected_witnesses_fail :
    (match eval ρ0 e0 with | .typeError => true | _ => false) = true ∧
    (match eval ρ0 e5 with | .val (.int _) => true | _ => false) = true ∧
    (match eval ρ0 e7 with | .typeError => true | _ => false) = true ∧
    (match eval ρ0 e10 with | .typeError => true | _ => false) = true ∧
    (match eval ρ0 e11 with | .typeError => true | _ => false) = true := by decide

/-! ## Non-vacuity: every hypothesis of `sound` holds of a concrete meta-model and instance -/

/-- `not (self.o is not None) or (len(self.o) > self.n and is_word(self.o))` — narrowing, a length
against an integer, a call with a narrowed argument -/
def e1 : Expr :=
  .impl (.isNotNone (.member selfE (t "o")))
    (.and [.cmp (.funCall lenName [.member selfE (t "o")]) .gt (.member selfE (t "n")),
           .funCall (t "is_word") [.member selfE (t "o")]])

/-- `self.o is None or self.o == "a" or self.s in self.o` -/
def e2 : Expr :=
  .or [.isNone (.member selfE (t "o")), .cmp (.member selfE (t "o")) .eq (.const (.str (t "a"))),
       .isIn (.member selfE (t "s")) (.member selfE (t "o"))]

theorem e1_accepted : acceptsPy Γ0 e1 = .ok .bool ∧ e1.wf = true ∧ noFnValuesB canon Γ0.withBackend [] e1 = true := by
  decide
theorem e2_accepted : acceptsPy Γ0 e2 = .ok .bool ∧ e2.wf = true ∧ noFnValuesB canon Γ0.withBackend [] e2 = true := by
  decide

theorem D0_wf : D0.WF := wfb_sound D0 (by decide)

theorem scope0 : Γ0.scope =
    [(selfName, .our (t "C")), (lenName, .builtin lenName (.prim .length)),
     (t "is_word", .verif (t "is_word") (.prim .bool))] := by decide

/-- `self = C(s="a", n=0, o=o)` for `o = None` / `o = "ab"` -/
def ρ1 (o : Val) : Env :=
  { ρ0 with vars := [(t "self", .inst 0 (t "C") [(t "s", .str (t "a")), (t "n", .int 0), (t "o", o)])] }

theorem find0 (x : Text) (τ : Ty) (h : Γ0.find x = some τ) :
    (x = selfName ∧ τ = .our (t "C")) ∨ (x = lenName ∧ τ = .builtin lenName (.prim .length)) ∨
      (x = t "is_word" ∧ τ = .verif (t "is_word") (.prim .bool)) := by
  simp only [TEnv.find, scope0, assoc] at h
  split at h
  · rename_i hx; cases h; exact Or.inl ⟨hx.symm, rfl⟩
  · split at h
    · rename_i hx; cases h; exact Or.inr (Or.inl ⟨hx.symm, rfl⟩)
    · split at h
      · rename_i hx; cases h; exact Or.inr (Or.inr ⟨hx.symm, rfl⟩)
      · cases h

theorem ρ1_conforms (o : Val) (ho : HasTy D0 o (.opt (.prim .str))) : Conforms (ρ1 o) Γ0 := by
  intro x τ h
  rcases find0 x τ h with ⟨rfl, rfl⟩ | ⟨rfl, rfl⟩ | ⟨rfl, rfl⟩
  · right
    refine ⟨.inst 0 (t "C") [(t "s", .str (t "a")), (t "n", .int 0), (t "o", o)], rfl, ?_⟩
    refine HasTy.inst (cd := cd0) rfl ?_ ?_
    · intro p τ hp
      simp only [cd0, assoc] at hp
      split at hp
      · rename_i hps; subst hps; rfl
      · split at hp
        · rename_i hps; subst hps; rfl
        · split at hp
          · rename_i hps; subst hps; rfl
          · cases hp
    · intro p τ w hp hw
      simp only [cd0, assoc] at hp
      split at hp
      · rename_i hps
        subst hps; cases hp
        have : w = .str (t "a") := by
          have : lookup (t "s") [(t "s", Val.str (t "a")), (t "n", .int 0), (t "o", o)] = some (.str (t "a")) := rfl
          rw [this] at hw; cases hw; rfl
        subst this; exact HasTy.str _
      · split at hp
        · rename_i hps
          subst hps; cases hp
          have : w = .int 0 := by
            have : lookup (t "n") [(t "s", Val.str (t "a")), (t "n", .int 0), (t "o", o)] = some (.int 0) := rfl
            rw [this] at hw; cases hw; rfl
          subst this; exact HasTy.int _
        · split at hp
          · rename_i hps
            subst hps; cases hp
            have : w = o := by
              have : lookup (t "o") [(t "s", Val.str (t "a")), (t "n", .int 0), (t "o", o)] = some o := rfl
              rw [this] at hw; cases hw; rfl
            subst this; exact ho
          · cases hp
  · left; rfl
  · left; rfl

theorem ρ1_ok (o : Val) : EnvOK (ρ1 o) :=
  { cmp := fun _ _ _ _ _ => ⟨false, rfl⟩, arith := fun _ _ _ => ⟨[], rfl⟩, fmt := fun _ => ⟨[], rfl⟩ }

theorem ρ1_calls (o : Val) : CallsOK (ρ1 o) Γ0 :=
  { notVar := by
      intro n τ h hfn
      rcases find0 n τ h with ⟨rfl, rfl⟩ | ⟨rfl, rfl⟩ | ⟨rfl, rfl⟩
      · cases hfn
      · rfl
      · rfl
    builtin := by
      intro n m ret h
      rcases find0 n _ h with ⟨rfl, h2⟩ | ⟨rfl, h2⟩ | ⟨rfl, h2⟩
      · cases h2
      · cases h2; exact ⟨rfl, rfl, rfl, rfl⟩
      · cases h2
    funs := by
      intro n m ret f h hf
      rcases find0 n _ h with ⟨rfl, h2⟩ | ⟨rfl, h2⟩ | ⟨rfl, h2⟩
      · cases h2
      · cases h2
      · cases h2
        exact ⟨fun _ => .val (.bool true), rfl, fun _ _ => Or.inr ⟨_, rfl, HasTy.bool true⟩⟩
    meths := by
      intro r c cd n ret ps hr hc hm _
      have hD : Γ0.decls = D0 := rfl
      rw [hD] at hc
      have : c = t "C" ∧ cd.methods = [] := by
        simp only [Decls.findOur, D0, assoc] at hc
        split at hc
        · rename_i hcc; cases hc; exact ⟨hcc.symm, rfl⟩
        · cases hc
      rw [this.2] at hm
      cases hm }

/-- `sound` applies: on `o = None` and on `o = "ab"` the two invariants evaluate to booleans
(computed below as well). -/
theorem sound_applies (hcanon : KeySound canon) (o : Val) (ho : HasTy D0 o (.opt (.prim .str))) :
    (eval (ρ1 o) e1 = .indexError ∨ ∃ b, eval (ρ1 o) e1 = .val (.bool b)) ∧
    (eval (ρ1 o) e2 = .indexError ∨ ∃ b, eval (ρ1 o) e2 = .val (.bool b)) :=
  ⟨sound hcanon D0 (t "C") (ρ1 o) e1 .bool e1_accepted.1 e1_accepted.2.1 e1_accepted.2.2 D0_wf (ρ1_conforms o ho)
      (ρ1_ok o) (ρ1_calls o),
   sound hcanon D0 (t "C") (ρ1 o) e2 .bool e2_accepted.1 e2_accepted.2.1 e2_accepted.2.2 D0_wf (ρ1_conforms o ho)
      (ρ1_ok o) (ρ1_calls o)⟩

example : (match eval (ρ1 .none) e1 with | .val (.bool true) => true | _ => false) = true := by decide
example : (match eval (ρ1 (.str (t "ab"))) e1 with | .val (.bool true) => true | _ => false) = true := by decide
example : (match eval (ρ1 .none) e2 with | .val (.bool true) => true | _ => false) = true := by decide
example : (match eval (ρ1 (.str (t "ab"))) e2 with | .val (.bool true) => true | _ => false) = true := by decide

/-- the unguarded use is rejected, and does dereference … here: compare `None` -/
def e3 : Expr := .cmp (.funCall lenName [.member selfE (t "o")]) .gt (.const (.int 0))
/-- the guard in the consequent instead of the antecedent is rejected -/
def e4 : Expr := .impl (.cmp (.funCall lenName [.member selfE (t "o")]) .gt (.const (.int 0))) (.isNotNone (.member selfE (t "o")))

example : inferInvC Γ0 e3 = .err [.lenArgOptional] := by decide
example : inferInvC Γ0 e4 = .err [.lenArgOptional] := by decide

/-! ## An evaluator fact that does not depend on the inferrer -/

/-- If an expression is *syntactically boolean* (`boolForm`: comparisons, `in`, `is (not) None`, `not`,
`any`/`all`, `bool` constants, combined by `and`/`or`/implication consequents) then, whatever the
operand types, its value — if it has one — is a `bool`.  (Before the repair of C07-F2 this was what
held instead of the boolean part of `sound`.) -/
theorem bool_result_partial (ρ : Env) (hf : ∀ op a b, IsBoolOut (ρ.fops.cmp op a b)) (e : Expr)
    (h : boolForm e = true) (v : Val) (hv : eval ρ e = .val v) : ∃ b, v = .bool b :=
  bool_result ρ hf e h v hv

/-! ## The tables read off the source agree with the model -/

/-- the `self.errors.append` sites of `_Inferrer`, per method, are the ones the model was written from
(a check added to or removed from the inferrer changes this table) -/
theorem errSites_methods :
    Gen.Infer.errSites = [("_check_arguments", 2), ("_transform_add_or_sub", 5), ("_transform_any_or_all", 1),
      ("transform_and", 2), ("transform_assignment", 1), ("transform_comparison", 3), ("transform_for_each", 3),
      ("transform_for_range", 5), ("transform_formatted_value", 1), ("transform_function_call", 3),
      ("transform_implication", 3), ("transform_index", 4), ("transform_is_in", 5), ("transform_is_none", 1),
      ("transform_is_not_none", 1), ("transform_member", 5), ("transform_method_call", 2), ("transform_name", 1),
      ("transform_not", 2), ("transform_or", 2)] ∧ Gen.Infer.invariantBodySites = 1 := by decide

/-- `_needs_no_brackets` of the source is the model's `needsNoBrackets` -/
theorem needsNoBrackets_table :
    Gen.Infer.needsNoBrackets = ["All", "Any", "Constant", "FunctionCall", "JoinedStr", "Member", "MethodCall", "Name"] := by
  decide

theorem numeric_tables :
    Gen.Infer.indexTypes = ["INT", "LENGTH"] ∧ Gen.Infer.rangeTypes = ["INT", "LENGTH"] ∧
      Gen.Infer.arithTypes = ["FLOAT", "INT", "LENGTH"] ∧
      Gen.Infer.orderNumberTypes = ["FLOAT", "INT", "LENGTH"] ∧ Gen.Infer.isInPrimContainers = ["BYTEARRAY", "STR"] := by
  decide

/-- the Python transpiler computes the length of strings and byte arrays (and lists), and reports the rest -/
theorem pyLen_table : Gen.Infer.pyLenPrims = ["BYTEARRAY", "STR"] ∧ Gen.Infer.pyLenErrorSites = 1 := by decide

end AasVerif.Props.C07
