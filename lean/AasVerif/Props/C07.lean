import AasVerif.Model.Expr.Infer
import AasVerif.Gen.Infer
namespace AasVerif.Props.C07
open AasVerif AasVerif.Expr

/-- placeholder, replaced below by the real theorems -/
theorem strip_nonopt (F : Facts) (k : Text) (p : Prim) : strip F k (.prim p) = .prim p := rfl

end AasVerif.Props.C07
