import AasVerif.Props.C16
import AasVerif.Props.C06
import AasVerif.Props.C14
/-!
# C01 — algorithmic cores of the front end, proved total for other properties and re-exported

The statement of C01 names "arbitrary regular-expression strings in pattern functions" explicitly:

* the regular-expression parser (`parse/retree/_parse.py`, called by the front end for every pattern
  function) returns a tree or a positioned error for EVERY text — no `assert`, `@require`, `KeyError`,
  fuel exhaustion (C16);
* the cycle search over the inheritance graph (`intermediate/_hierarchy.py`) terminates with a verdict for
  every list of classes, undeclared and repeated parents included (C06);
* the front end's pattern check (`_verify_patterns_anchored_at_start_and_end`) is a total function of the
  parsed tree (`PatternShape.patternErrors`, compared with the real function on every run by C14) — its
  totality is its definition by structural recursion; what it guarantees is `shape_ok_anchored`.

The generated tables these theorems depend on (`Gen/Retree.lean`, `Gen/Rules.lean`, `Gen/PatternShape.lean`) are
regenerated from the source by every run of this check (harness/core.py: `imported_gens`).
-/
namespace AasVerif.Props.C01Cores

theorem retree_tokens_never_crash : type_of% @AasVerif.Props.C16.parseToks_never_crashes :=
  @AasVerif.Props.C16.parseToks_never_crashes
theorem retree_parse_never_crashes : type_of% @AasVerif.Props.C16.parse_never_crashes :=
  @AasVerif.Props.C16.parse_never_crashes
theorem retree_crash_only_precondition : type_of% @AasVerif.Props.C16.parse_crash_only_precondition :=
  @AasVerif.Props.C16.parse_crash_only_precondition
theorem retree_error_positioned : type_of% @AasVerif.Props.C16.parse_err_positioned :=
  @AasVerif.Props.C16.parse_err_positioned
theorem hierarchy_search_terminates : type_of% @AasVerif.Props.C06.dfs_fuel_suffices :=
  @AasVerif.Props.C06.dfs_fuel_suffices
theorem hierarchy_cycle_verdict_exact : type_of% @AasVerif.Props.C06.cycle_detected_iff :=
  @AasVerif.Props.C06.cycle_detected_iff
theorem pattern_check_guarantee : type_of% @AasVerif.PatternShape.shape_ok_anchored :=
  @AasVerif.PatternShape.shape_ok_anchored

/-- A pattern text handed to the front end as ONE string always satisfies the precondition of the parser's
cursor, so for pattern functions without formatted values the parser never raises at all. -/
theorem single_string_pattern_never_crashes (p : AasVerif.Text) :
    ∀ s, AasVerif.Retree.parse [.str p] ≠ .crash s :=
  AasVerif.Props.C16.parse_never_crashes [.str p] rfl

end AasVerif.Props.C01Cores
