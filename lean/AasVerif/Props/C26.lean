import AasVerif.Lemmas.Yielding.Budget
import AasVerif.Model.YieldingSkeleton
import AasVerif.Gen.Yielding
/-!
# C26 — Yield-flow linearization preserves behaviour

Models (`Model/Yielding.lean`, namespace `AasVerif.Yielding`): `Flow.run` (structured semantics of
`yielding/flow.py` nodes; oracle = condition outcomes), `linearize`, `dropLabels`, `removeNoops`,
`fixLabels`, `split`, `toSubroutines` (`yielding/linear.py`, pass by pass), `runFlatFuel` (goto
machine over one statement list), `runSubFuel` (the state machine `cpp/yielding.py` emits for
the subroutines, with C++ `case` fall-through and the `default: throw`).

All statements are for flows that can be constructed (`wfSeq`: the `@require(len(body) >= 1)` of
`IfTrue`/`IfFalse`) and for **every** sequence of condition outcomes.  The machines are
deterministic step functions run with a step budget; "`∃ k, ∀ m ≥ k, run m … = r`" says that the
machine terminates with result `r` (no budget appears in `r`; `Flow.run` needs no budget at all).
`runSub`/`runFlat` (what the driver executes) use the concrete budget `defaultFuel`; the theorems
`runSub_correct`, `pipeline_correct_ends_with_command`, `runFlat_linearize_correct` show that it
suffices, so no budget appears in those statements either.
-/
namespace AasVerif.Props.C26
open AasVerif AasVerif.Yielding

/-- `_linearize_control_flow` is correct: the goto machine over the linearized statements
terminates with exactly the structured result. -/
theorem linearize_correct (flow : List Node) (hwf : wfSeq flow = true) (orc : List Bool) :
    ∃ k, ∀ m, k ≤ m → runFlatFuel m (linearize flow) orc = Flow.run flow orc :=
  (linearize_conv flow hwf orc).of_ge

/-- Labels after `_linearize_control_flow` are exactly the positions `0,1,…`. -/
theorem linearize_labels_are_positions (flow : List Node) (hwf : wfSeq flow = true) :
    (linearize flow).map (·.label) = (List.range (linearize flow).length).map some := by
  have := linearize_labels flow hwf
  simpa [LabelsFrom, List.range_eq_range'] using this

/-- Translation validation: whenever `simCheck` accepts a position map, the rewritten statements
behave like the original ones (same result within the same budget). -/
theorem passes_preserve (C C' : List Stmt) (phi : List Nat) (h : simCheck C C' phi = true)
    (n : Nat) (orc : List Bool) (r : Result) (hr : runFlatFuel n C orc = r)
    (hok : r.status ≠ .crash .outOfFuel) : runFlatFuel n C' orc = r := by
  have h0 : phiAt phi 0 = 0 := by
    simp only [simCheck, Bool.and_eq_true, beq_iff_eq] at h
    exact h.1.1
  have := simCheck_run h n 0 orc r (Nat.zero_le _) hr hok
  rwa [h0] at this

/-- `_remove_redundant_labels_in_place` preserves behaviour — for every statement list. -/
theorem drop_labels_preserves (C : List Stmt) (n : Nat) (orc : List Bool) (r : Result)
    (hr : runFlatFuel n C orc = r) (hok : r.status ≠ .crash .outOfFuel) :
    runFlatFuel n (dropLabels C) orc = r :=
  passes_preserve C _ _ (dropLabels_simCheck C) n orc r hr hok

/-- `_remove_noops_in_place` preserves behaviour when every no-op is labelled, labels are
pairwise distinct and every jump target is a label (`Inv`; holds after the first pass, see
`stage_invariants`). -/
theorem remove_noops_preserves (C : List Stmt) (h : Inv C) (n : Nat) (orc : List Bool) (r : Result)
    (hr : runFlatFuel n C orc = r) (hok : r.status ≠ .crash .outOfFuel) :
    runFlatFuel n (removeNoops C) orc = r :=
  passes_preserve C _ _ (removeNoops_simCheck h.noops h.nodup h.targets) n orc r hr hok

/-- `_fix_labels_in_place` preserves behaviour when labels are pairwise distinct and every jump
target is a label (`Inv2`). -/
theorem fix_labels_preserves (C : List Stmt) (h : Inv2 C) (n : Nat) (orc : List Bool) (r : Result)
    (hr : runFlatFuel n C orc = r) (hok : r.status ≠ .crash .outOfFuel) :
    runFlatFuel n (fixLabels C) orc = r :=
  passes_preserve C _ _ (fixLabels_spec h).1 n orc r hr hok

/-- The invariants really hold at every stage of `linearize_to_subroutines`. -/
theorem stage_invariants (flow : List Node) (hwf : wfSeq flow = true) :
    Inv (dropLabels (linearize flow)) ∧ Inv2 (compress (linearize flow)) ∧
      Inv3 (fixLabels (compress (linearize flow))) :=
  ⟨(stages flow hwf).inv1, (stages flow hwf).inv2, (stages flow hwf).inv3⟩

/-- `_split_in_subroutines` + the emitted state machine: for subroutines of the checked shape the
state machine computes what the goto machine over the concatenated statements computes, except
that a clean end is only reached after a final `Command` (otherwise the C++ falls through into
`default:` and throws: `endStatus`). -/
theorem split_correct (subs : List (List Stmt)) (h : subsCheck subs = true)
    (n : Nat) (orc : List Bool) (r : Result) (hr : runFlatFuel n subs.flatten orc = r)
    (hok : r.status ≠ .crash .outOfFuel) :
    ∃ k, ∀ m, k ≤ m → runSubFuel m subs orc = r.withEnd (endStatus subs.flatten) :=
  sub_of_flat h ⟨n, hr, hok⟩

/-- `_split_in_subroutines` returns subroutines of that shape and loses nothing. -/
theorem split_shape (flow : List Node) (hwf : wfSeq flow = true) :
    subsCheck (split (finalStmts flow)) = true ∧
      (split (finalStmts flow)).flatten = finalStmts flow :=
  ⟨(stages flow hwf).subs, (stages flow hwf).flat⟩

/-- **Main theorem.** For every constructible flow and every sequence of condition outcomes the
state machine over `linearize_to_subroutines(flow)` terminates with the events of the structured
run and with its status — except that the final `ended` is what the emitted C++ does at the end
of the last subroutine (`endStatus`: clean return after a `Command`, `std::logic_error` else). -/
theorem pipeline_correct (flow : List Node) (hwf : wfSeq flow = true) (orc : List Bool) :
    ∃ k, ∀ m, k ≤ m → runSubFuel m (toSubroutines flow) orc =
      (Flow.run flow orc).withEnd (endStatus (toSubroutines flow).flatten) := by
  cases flow with
  | nil =>
    refine ⟨0, fun m _ => ?_⟩
    simp [toSubroutines, runSubFuel, Flow.run, Result.withEnd, endStatus]
  | cons nd rest =>
    have st := stages (nd :: rest) hwf
    rw [toSubroutines_cons]
    exact sub_of_flat st.subs (st.flat.symm ▸ final_conv (nd :: rest) hwf orc)

/-- **Main theorem, budget-free form**: `runSub` (the state machine with its concrete step budget,
as the driver runs it) gives the structured result; in particular it never runs out of budget
(every cycle of the emitted code passes an `If`). -/
theorem runSub_correct (flow : List Node) (hwf : wfSeq flow = true) (orc : List Bool) :
    runSub (toSubroutines flow) orc =
      (Flow.run flow orc).withEnd (endStatus (toSubroutines flow).flatten) :=
  runSub_final flow hwf orc

/-- the goto machine with its concrete budget over the linearization / over the final statements -/
theorem runFlat_linearize_correct (flow : List Node) (hwf : wfSeq flow = true) (orc : List Bool) :
    runFlat (linearize flow) orc = Flow.run flow orc ∧
      runFlat (fixLabels (compress (linearize flow))) orc = Flow.run flow orc :=
  ⟨runFlat_linearize flow hwf orc, runFlat_final flow hwf orc⟩

/-- The statement of C26: same sequence of commands, condition evaluations and yields, for every
sequence of condition outcomes. -/
theorem pipeline_events (flow : List Node) (hwf : wfSeq flow = true) (orc : List Bool) :
    ∃ k, ∀ m, k ≤ m →
      (runSubFuel m (toSubroutines flow) orc).events = (Flow.run flow orc).events := by
  obtain ⟨k, hk⟩ := pipeline_correct flow hwf orc
  refine ⟨k, fun m hm => ?_⟩
  rw [hk m hm]
  unfold Result.withEnd
  split <;> rfl

/-- How the run ends, in terms of the flow: if the last top-level node is a `Command` (all flows
built in `cpp/lib/_generate_iteration.py` end like that) the state machine gives exactly the
structured result, status included. -/
theorem pipeline_correct_partial (flow : List Node) (hwf : wfSeq flow = true)
    (hend : flowEndsCmd flow = true) (orc : List Bool) :
    ∃ k, ∀ m, k ≤ m → runSubFuel m (toSubroutines flow) orc = Flow.run flow orc := by
  obtain ⟨k, hk⟩ := pipeline_correct flow hwf orc
  refine ⟨k, fun m hm => ?_⟩
  have hne : flow ≠ [] := by intro h; subst h; simp [flowEndsCmd] at hend
  have hflat : (toSubroutines flow).flatten = finalStmts flow := by
    cases flow with
    | nil => exact absurd rfl hne
    | cons nd rest => rw [toSubroutines_cons]; exact (stages _ hwf).flat
  rw [hk m hm, hflat, endStatus_final flow hwf hne, hend]
  unfold Result.withEnd
  split
  · rename_i h; cases hr : Flow.run flow orc; simp_all
  · rfl

/-- `pipeline_correct` for the largest class with an exact equality, budget-free:
`∀ flow orc, ends with a Command → runSub (linearize_to_subroutines flow) orc = Flow.run flow orc`. -/
theorem pipeline_correct_ends_with_command (flow : List Node) (hwf : wfSeq flow = true)
    (hend : flowEndsCmd flow = true) (orc : List Bool) :
    runSub (toSubroutines flow) orc = Flow.run flow orc := by
  have hne : flow ≠ [] := by intro h; subst h; simp [flowEndsCmd] at hend
  have hflat : (toSubroutines flow).flatten = finalStmts flow := by
    cases flow with
    | nil => exact absurd rfl hne
    | cons nd rest => rw [toSubroutines_cons]; exact (stages _ hwf).flat
  rw [runSub_correct flow hwf orc, hflat, endStatus_final flow hwf hne, hend]
  unfold Result.withEnd
  split
  · rename_i h; cases hr : Flow.run flow orc; simp_all
  · rfl

/-- equal events, budget-free -/
theorem runSub_events (flow : List Node) (hwf : wfSeq flow = true) (orc : List Bool) :
    (runSub (toSubroutines flow) orc).events = (Flow.run flow orc).events := by
  rw [runSub_correct flow hwf orc]
  unfold Result.withEnd
  split <;> rfl

/-- … and otherwise (last node is a yield, an if or a loop) the emitted C++ falls through into
`default:` when the structured flow ends: `std::logic_error` instead of a clean return. -/
theorem pipeline_end_status (flow : List Node) (hwf : wfSeq flow = true) (hne : flow ≠ [])
    (hend : flowEndsCmd flow = false) (orc : List Bool) :
    ∃ k, ∀ m, k ≤ m → runSubFuel m (toSubroutines flow) orc =
      (Flow.run flow orc).withEnd (.crash .invalidState) := by
  obtain ⟨k, hk⟩ := pipeline_correct flow hwf orc
  refine ⟨k, fun m hm => ?_⟩
  have hflat : (toSubroutines flow).flatten = finalStmts flow := by
    cases flow with
    | nil => exact absurd rfl hne
    | cons nd rest => rw [toSubroutines_cons]; exact (stages _ hwf).flat
  rw [hk m hm, hflat, endStatus_final flow hwf hne, hend]
  rfl

/-- non-vacuity: the flow of `test_inspired_by_verificator`-style shape ends with a command -/
example : wfSeq [.ifThen false 1 [.command 2, .yield], .forLoop (some 3) 4 5 [.yield], .command 6]
      = true ∧
    flowEndsCmd [.ifThen false 1 [.command 2, .yield], .forLoop (some 3) 4 5 [.yield], .command 6]
      = true := by decide

/-- Subroutine `i` carries label `i`, only its first statement is labelled, no subroutine is
empty (`@require`s of `Subroutine`), a `yield` ends its subroutine. -/
theorem labels_consecutive (flow : List Node) (hwf : wfSeq flow = true) :
    (∀ i sub, (toSubroutines flow)[i]? = some sub → subLabel sub = some i) ∧
      (toSubroutines flow).all subOk = true := by
  cases flow with
  | nil => simp [toSubroutines]
  | cons nd rest =>
    rw [toSubroutines_cons]
    have hs := SubsOk.of_check (stages (nd :: rest) hwf).subs
    exact ⟨hs.lab, hs.all⟩

/-- The `@ensure` of `linearize_to_subroutines` never fires. -/
theorem ensure_holds (flow : List Node) (hwf : wfSeq flow = true) :
    consecutiveB (toSubroutines flow) = true := by
  have h := (labels_consecutive flow hwf).1
  generalize toSubroutines flow = subs at h
  have : ∀ (subs : List (List Stmt)) (k : Nat),
      (∀ i sub, subs[i]? = some sub → subLabel sub = some (k + i)) → consecutiveB subs = true := by
    intro subs
    induction subs with
    | nil => intro _ _; rfl
    | cons a rest ih =>
      intro k h
      cases rest with
      | nil => rfl
      | cons b rest' =>
        have ha := h 0 a (by simp)
        have hb := h 1 b (by simp)
        simp only [consecutiveB, ha, hb, Nat.add_zero, beq_self_eq_true, Bool.true_and]
        exact ih (k + 1) (fun i sub hi => by
          rw [h (i + 1) sub (by simpa using hi)]; congr 1; omega)
  exact this subs 0 (by simpa using h)

/-- Every `on_true` / `on_false` / `target` is the label of a subroutine
(the emitted `switch` never reaches `default:` through a jump). -/
theorem targets_exist (flow : List Node) (hwf : wfSeq flow = true) :
    ∀ t ∈ targets (toSubroutines flow).flatten, ∃ i, findSub (toSubroutines flow) t = some i := by
  cases flow with
  | nil => simp [toSubroutines]
  | cons nd rest =>
    have st := stages (nd :: rest) hwf
    rw [toSubroutines_cons]
    intro t ht
    have hs := SubsOk.of_check st.subs
    rw [st.flat] at ht
    have hmem := st.inv3.targets t ht
    rw [st.inv3.labs, List.mem_range] at hmem
    have hlen : (labs (finalStmts (nd :: rest))).length = (split (finalStmts (nd :: rest))).length := by
      have := st.subs
      simp only [subsCheck, Bool.and_eq_true, beq_iff_eq] at this
      have h2 := congrArg List.length this.2
      rw [st.flat] at h2
      simpa using h2
    refine ⟨t, ?_⟩
    rw [hs.findSub]
    simp [← hlen, hmem]

/-- The full statement *including the final status* is false: a flow that does not end with a
`Command` makes the emitted C++ fall through into `default:` (`std::logic_error`). -/
theorem pipeline_full_fails :
    ¬ ∀ (flow : List Node) (orc : List Bool), wfSeq flow = true →
      runSub (toSubroutines flow) orc = Flow.run flow orc := by
  intro h
  have h1 := h [.yield] [] rfl
  have h2 : runSub (toSubroutines [.yield]) [] = ⟨[.yield], .crash .invalidState⟩ := by decide
  have h3 : Flow.run [.yield] [] = ⟨[.yield], .ended⟩ := by simp [Flow.run, Result.cons]
  rw [h2, h3] at h1
  cases h1

/-- The skeleton of the current sources (regenerated `Gen/Yielding.lean`: statement kinds emitted
per `_linearize_*`, pass order, control transfers of the emitted C++ blocks, no `break`,
`default:` throws) is the one the model was written against. -/
theorem source_skeleton :
    Gen.Yielding.linearizeShapes = Skeleton.linearizeShapes ∧
    Gen.Yielding.pipelineCalls = Skeleton.pipelineCalls ∧
    Gen.Yielding.compressCalls = Skeleton.compressCalls ∧
    Gen.Yielding.emitTransfers = Skeleton.emitTransfers ∧
    Gen.Yielding.endOfRoutineAfter = Skeleton.endOfRoutineAfter ∧
    Gen.Yielding.caseBlocksBreak = Skeleton.caseBlocksBreak ∧
    Gen.Yielding.defaultThrows = Skeleton.defaultThrows := by decide

/-- non-vacuity of `wfSeq`: nested loops, an empty `or_else`, a trailing `yield` -/
example : wfSeq [.ifElse true 1 [.yield] [], .whileLoop 2 [.whileLoop 3 []], .yield] = true := by
  decide

end AasVerif.Props.C26
