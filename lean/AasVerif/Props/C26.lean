import AasVerif.Model.Yielding
/-!
# C26 — Yield-flow linearization preserves behaviour (theorems under construction)
-/
namespace AasVerif.Props.C26
open AasVerif AasVerif.Yielding

/-- `linearize_to_subroutines([]) = []` and the emitted body is `// Intentionally empty.` -/
theorem empty_flow (orc : List Bool) : runSub (toSubroutines []) orc = Flow.run [] orc := by
  simp [toSubroutines, runSub, runSubFuel, Flow.run]

end AasVerif.Props.C26
