import AasVerif.Lemmas.Yielding.Linearize
import AasVerif.Lemmas.Yielding.SubSim
/-!
# C26 — Yield-flow linearization preserves behaviour

Models: `AasVerif.Yielding` (`Model/Yielding.lean`): `Flow.run` (structured semantics),
`linearize … toSubroutines` (`yielding/linear.py`), `runSub` (the state machine that
`cpp/yielding.py` emits), `runFlat` (goto machine over an intermediate stage).
-/
namespace AasVerif.Props.C26
open AasVerif AasVerif.Yielding

/-- `_linearize_control_flow` is correct: the goto machine over the linearized statements
terminates (for every large enough step budget) with exactly the structured result. -/
theorem linearize_correct (flow : List Node) (hwf : wfSeq flow = true) (orc : List Bool) :
    ∃ n, ∀ m, n ≤ m → runFlatFuel m (linearize flow) orc = Flow.run flow orc :=
  (linearize_conv flow hwf orc).of_ge

/-- Labels after `_linearize_control_flow` are exactly the positions `0,1,…`. -/
theorem linearize_labels_are_positions (flow : List Node) (hwf : wfSeq flow = true) :
    (linearize flow).map (·.label) = (List.range (linearize flow).length).map some := by
  have := linearize_labels flow hwf
  simpa [LabelsFrom, List.range_eq_range'] using this

/-- Translation validation of the label/no-op passes: whenever `simCheck` accepts a position map,
the rewritten statements behave like the original ones (same result within the same budget). -/
theorem passes_preserve (C C' : List Stmt) (phi : List Nat) (h : simCheck C C' phi = true)
    (n : Nat) (orc : List Bool) (r : Result) (hr : runFlatFuel n C orc = r)
    (hok : r.status ≠ .crash .outOfFuel) : runFlatFuel n C' orc = r := by
  have h0 : phiAt phi 0 = 0 := by
    simp only [simCheck, Bool.and_eq_true, beq_iff_eq] at h
    exact h.1.1
  have := simCheck_run h n 0 orc r (Nat.zero_le _) hr hok
  rwa [h0] at this

/-- `_split_in_subroutines` + the emitted state machine: for subroutines of the checked shape the
state machine computes what the goto machine over the concatenated statements computes, except
that a clean end is only reached after a final `Command` (otherwise the C++ falls through into
`default:` and throws: `endStatus`). -/
theorem split_correct (subs : List (List Stmt)) (h : subsCheck subs = true) (hne : subs ≠ [])
    (n : Nat) (orc : List Bool) (r : Result) (hr : runFlatFuel n subs.flatten orc = r)
    (hok : r.status ≠ .crash .outOfFuel) :
    ∃ k, ∀ m, k ≤ m → runSubFuel m subs orc = r.withEnd (endStatus subs.flatten) := by
  have hs := SubsOk.of_check h
  cases subs with
  | nil => exact absurd rfl hne
  | cons sub rest =>
    have hpos : Pos (sub :: rest) 0 0 0 :=
      ⟨sub, by simp, hs.ne_nil (i := 0) (by simp), by simp [start_zero]⟩
    have := (sub_sim hs n 0 orc r hr hok 0 0 hpos).of_ge
    simpa [runSubFuel] using this

/-- **Main theorem (partial: decidable hypothesis `pipelineCheck flow`, evaluated by the driver
on every correspondence input).** The state machine over `linearize_to_subroutines(flow)`
terminates with the events of the structured run, and with its status, except that `ended`
becomes `endStatus` of the emitted code. -/
theorem pipeline_correct_partial (flow : List Node) (hwf : wfSeq flow = true)
    (hchk : pipelineCheck flow = true) (orc : List Bool) :
    ∃ k, ∀ m, k ≤ m → runSubFuel m (toSubroutines flow) orc =
      (Flow.run flow orc).withEnd (endStatus (toSubroutines flow).flatten) := by
  cases flow with
  | nil =>
    refine ⟨0, fun m _ => ?_⟩
    simp [toSubroutines, runSubFuel, Flow.run, Result.withEnd, endStatus]
  | cons nd rest =>
    simp only [pipelineCheck, Bool.and_eq_true, beq_iff_eq] at hchk
    obtain ⟨⟨hsim, hsubs⟩, hflat⟩ := hchk
    obtain ⟨n, hn, hok⟩ := simCheck_conv hsim (linearize_conv (nd :: rest) hwf orc)
    have hts : toSubroutines (nd :: rest) = split (fixLabels (compress (linearize (nd :: rest)))) := by
      simp [toSubroutines]
    rw [hts]
    by_cases hne : split (fixLabels (compress (linearize (nd :: rest)))) = []
    · rw [hne] at hflat ⊢
      simp only [List.flatten_nil] at hflat
      rw [← hflat] at hn
      refine ⟨0, fun m _ => ?_⟩
      have : Flow.run (nd :: rest) orc = ⟨[], .ended⟩ := by
        rw [← hn]
        exact runM_flat_end (C := []) (by simp) (by rw [hn]; exact hok)
      simp [runSubFuel, this, Result.withEnd, endStatus]
    · rw [← hflat] at hn
      exact split_correct _ hsubs hne n orc _ hn hok

/-- Same sequence of commands, condition evaluations and yields (the statement of C26),
for every sequence of condition outcomes. -/
theorem pipeline_events_partial (flow : List Node) (hwf : wfSeq flow = true)
    (hchk : pipelineCheck flow = true) (orc : List Bool) :
    ∃ k, ∀ m, k ≤ m → (runSubFuel m (toSubroutines flow) orc).events = (Flow.run flow orc).events := by
  obtain ⟨k, hk⟩ := pipeline_correct_partial flow hwf hchk orc
  refine ⟨k, fun m hm => ?_⟩
  rw [hk m hm]
  unfold Result.withEnd
  split <;> rfl

/-- Subroutine labels are `0,1,…,k-1`, only first statements are labelled (the `@require` of
`Subroutine` and the `@ensure` of `linearize_to_subroutines` hold). -/
theorem labels_consecutive_partial (flow : List Node) (hchk : pipelineCheck flow = true)
    (hne : flow ≠ []) :
    ∀ i sub, (toSubroutines flow)[i]? = some sub → subLabel sub = some i := by
  simp only [pipelineCheck, Bool.and_eq_true, beq_iff_eq] at hchk
  have hts : toSubroutines flow = split (fixLabels (compress (linearize flow))) := by
    cases flow with
    | nil => exact absurd rfl hne
    | cons _ _ => simp [toSubroutines]
  rw [hts]
  exact (SubsOk.of_check hchk.1.2).lab

/-- The full statement including the final status is false: a flow that does not end with a
`Command` makes the emitted C++ fall through into `default:` (`std::logic_error`). -/
theorem pipeline_full_fails :
    ¬ ∀ (flow : List Node) (orc : List Bool), wfSeq flow = true →
      runSub (toSubroutines flow) orc = Flow.run flow orc := by
  intro h
  have h1 := h [.yield] [] rfl
  have h2 : runSub (toSubroutines [.yield]) [] = ⟨[.yield], .crash .invalidState⟩ := by decide
  have h3 : Flow.run [.yield] [] = ⟨[.yield], .ended⟩ := by simp [Flow.run, Result.cons]
  rw [h2, h3] at h1
  cases h1

/-- non-vacuity: a flow with nested loops, an empty `or_else` and a trailing `yield` meets the
hypotheses -/
example : wfSeq [.ifElse true 1 [.yield] [], .whileLoop 2 [.whileLoop 3 []], .yield] = true ∧
    pipelineCheck [.ifElse true 1 [.yield] [], .whileLoop 2 [.whileLoop 3 []], .yield] = true := by
  decide

end AasVerif.Props.C26
