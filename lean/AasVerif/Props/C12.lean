import AasVerif.Lemmas.JsonSchemaLookup
import AasVerif.Lemmas.JsonSchemaTighten
import AasVerif.Lemmas.JsonSchemaSearchB

import AasVerif.Lemmas.JsonSchemaDispatch
/-!
# C12 — JSON Schema enforces every inferred constraint

Contrapositive readings of the key lemma (`Props.C11.type_lemma`) and of the class-level lemmas:
a value that breaks a length, pattern or list-size constraint attached to its type annotation, a
mistyped value, a wrong or missing `modelType`, a missing required property is NOT accepted
(`¬ Valid`: no amount of fuel makes the validator accept).

Scope proved here: the value level for every type annotation (own class, ancestors and constrained
primitives are already merged into the constraints the annotation carries — that merge is C15's
subject); the object level for concrete classes without concrete descendants and their direct
parents (first sections); and, in the last section, WHOLE DOCUMENTS of every concrete class of a
meta-model with a consistent hierarchy (`hierOK`, decidable, evaluated by the driver on every input):
ancestors at any distance, several parents constraining one property, classes with concrete
descendants (`X = allOf[X_abstract, const]`) and `_choice` definitions — see `design.d/C12.md`.
The two exclusions of the statement show up as follows: item-level constraints of an inherited list
are simply not part of `defineProp` for inherited properties (only the top node is translated);
byte-array bounds are stated on the base64 text (`base64Len`).
-/
namespace AasVerif.Props.C12
open AasVerif AasVerif.JsonSchema AasVerif.Retree

/-- **`constraint_enforced`, value level.**  A JSON value that does not satisfy the shape or one of
the inferred constraints of the annotation is not accepted by the schema of the annotation. -/
theorem constraint_enforced (defs : Defs) (τ : TA) (s : Schema) (h : defineType τ = .ok s) (j : Json)
    (hbad : ¬ Sat defs τ j) : ¬ Valid defs s j :=
  fun hv => hbad ((type_lemma defs τ s h j).mp hv)

/-- a string longer than the inferred maximum is rejected -/
theorem too_long_rejected (defs : Defs) (cs : Cons) (lc : LenC) (m : Int) (s : Schema) (t : Text)
    (hl : cs.len = some lc) (hm : lc.max = some m) (hlen : m < (t.length : Int))
    (h : defineType (.prim .str (some cs)) = .ok s) : ¬ Valid defs s (.str t) := by
  refine constraint_enforced defs _ s h _ ?_
  rintro ⟨_, hc⟩
  have := ((hc cs rfl t rfl).1 rfl).1 lc hl
  have := this.2 m hm
  simp only [id] at this
  omega

/-- a string shorter than the inferred minimum is rejected -/
theorem too_short_rejected (defs : Defs) (cs : Cons) (lc : LenC) (m : Int) (s : Schema) (t : Text)
    (hl : cs.len = some lc) (hm : lc.min = some m) (hlen : (t.length : Int) < m)
    (h : defineType (.prim .str (some cs)) = .ok s) : ¬ Valid defs s (.str t) := by
  refine constraint_enforced defs _ s h _ ?_
  rintro ⟨_, hc⟩
  have := ((hc cs rfl t rfl).1 rfl).1 lc hl
  have := this.1 m hm
  simp only [id] at this
  omega

/-- a string missing one of the inferred patterns (searched in its UTF-16 units, after the rewriting
for UTF-16 engines) is rejected -/
theorem pattern_miss_rejected (defs : Defs) (cs : Cons) (ps : List Text) (p : Text) (re : Regex)
    (s : Schema) (t : Text) (hp : cs.pats = some ps) (hmem : p ∈ ps) (hfix : fixPattern p = .ok re)
    (hmiss : searchB re (Fix16.utf16 t) ≠ .yes)
    (h : defineType (.prim .str (some cs)) = .ok s) : ¬ Valid defs s (.str t) := by
  refine constraint_enforced defs _ s h _ ?_
  rintro ⟨_, hc⟩
  obtain ⟨re', hre', hyes⟩ := ((hc cs rfl t rfl).1 rfl).2 ps hp p hmem
  rw [hfix] at hre'
  cases hre'
  exact hmiss hyes

/-- a byte array whose base64 text is longer than the base64 length of the inferred maximum is
rejected (the statement's "what the base64 text length can express") -/
theorem bytes_too_long_rejected (defs : Defs) (cs : Cons) (lc : LenC) (m : Int) (s : Schema) (t : Text)
    (hl : cs.len = some lc) (hm : lc.max = some m) (hlen : base64Len m < (t.length : Int))
    (h : defineType (.prim .bytes (some cs)) = .ok s) : ¬ Valid defs s (.str t) := by
  refine constraint_enforced defs _ s h _ ?_
  rintro ⟨_, hc⟩
  have := ((hc cs rfl t rfl).2 rfl) lc hl
  have := this.2 m hm
  omega

/-- a list with more items than the inferred maximum is rejected -/
theorem list_too_long_rejected (defs : Defs) (items : TA) (cs : Cons) (lc : LenC) (m : Int) (s : Schema)
    (xs : List Json) (hl : cs.len = some lc) (hm : lc.max = some m) (hlen : m < (xs.length : Int))
    (h : defineType (.list items (some cs)) = .ok s) : ¬ Valid defs s (.arr xs) := by
  refine constraint_enforced defs _ s h _ ?_
  rintro ⟨ys, hys, _, hlenIn⟩
  cases hys
  have := (hlenIn lc (by simp [hl])).2 m hm
  simp only [id] at this
  omega

/-- a list with fewer items than the inferred minimum is rejected -/
theorem list_too_short_rejected (defs : Defs) (items : TA) (cs : Cons) (lc : LenC) (m : Int) (s : Schema)
    (xs : List Json) (hl : cs.len = some lc) (hm : lc.min = some m) (hlen : (xs.length : Int) < m)
    (h : defineType (.list items (some cs)) = .ok s) : ¬ Valid defs s (.arr xs) := by
  refine constraint_enforced defs _ s h _ ?_
  rintro ⟨ys, hys, _, hlenIn⟩
  cases hys
  have := (hlenIn lc (by simp [hl])).1 m hm
  simp only [id] at this
  omega

/-- a list with an item that breaks the item annotation is rejected -/
theorem list_item_rejected (defs : Defs) (items : TA) (cs : Option Cons) (s : Schema) (xs : List Json)
    (x : Json) (hx : x ∈ xs) (hbad : ¬ Sat defs items x)
    (h : defineType (.list items cs) = .ok s) : ¬ Valid defs s (.arr xs) := by
  refine constraint_enforced defs _ s h _ ?_
  rintro ⟨ys, hys, hall, _⟩
  cases hys
  exact hbad (hall x hx)

/-- **a mistyped value is rejected**: a value that has not the JSON type of the primitive -/
theorem mistyped_rejected (defs : Defs) (p : Prim) (cs : Option Cons) (jt : JType) (s : Schema) (j : Json)
    (hjt : primType p = some jt) (hty : hasType jt j = false)
    (h : defineType (.prim p cs) = .ok s) : ¬ Valid defs s j := by
  refine constraint_enforced defs _ s h _ ?_
  rintro ⟨⟨jt', hjt', hty'⟩, _⟩
  rw [hjt] at hjt'
  cases hjt'
  rw [hty] at hty'
  cases hty'

/-- …and anything but an array where a list is expected -/
theorem mistyped_list_rejected (defs : Defs) (items : TA) (cs : Option Cons) (s : Schema) (j : Json)
    (hj : ∀ xs, j ≠ .arr xs) (h : defineType (.list items cs) = .ok s) : ¬ Valid defs s j := by
  refine constraint_enforced defs _ s h _ ?_
  rintro ⟨ys, hys, _⟩
  exact hj ys hys

/-! ## Object level: a concrete class without concrete descendants -/

/-- **an own property's constraint is enforced**: if the value stored under the JSON name of an own
property breaks the property's annotation (shape or inferred constraint), the class definition does
not accept the object. -/
theorem own_property_enforced (defs : Defs) {c : Cls} {k : Text} {s : Schema}
    (h : concreteDefinition c = .ok (k, s)) (hleaf : c.cdesc = [])
    (hnd : (c.props.map (·.name)).Nodup) {p : Prp} (hmem : p ∈ c.props) (hown : p.own = true)
    (hnm : p.name ≠ modelTypeKey) {sp : Schema} (hd : defineType p.ty = .ok sp)
    {kvs : List (Text × Json)} {v : Json} (hl : lookup p.name kvs = some v) (hbad : ¬ Sat defs p.ty v) :
    ¬ Valid defs s (.obj kvs) :=
  fun hv => hbad (concrete_leaf_own_property defs h hleaf hnd hmem hown hnm hd hv v hl)

/-- **`modelType_required_typed`, wrong value**: an object whose `modelType` is not the string of
the class's model type (another name, or not a string at all) is rejected. -/
theorem modelType_wrong_rejected (defs : Defs) {c : Cls} {k : Text} {s : Schema}
    (h : concreteDefinition c = .ok (k, s)) (hleaf : c.cdesc = []) (hw : c.withModelType = true)
    {kvs : List (Text × Json)} {v : Json} (hl : lookup modelTypeKey kvs = some v) (hbad : v ≠ .str c.mt) :
    ¬ Valid defs s (.obj kvs) :=
  fun hv => hbad (concrete_leaf_modelType_pinned defs h hleaf hw hv v hl)

/-- **`modelType_required_typed`, missing**: when no parent definition requires `modelType`, the
class definition itself does (the second `fix:` commit; on the pinned tree this was false). -/
theorem modelType_missing_rejected (defs : Defs) {c : Cls} {k : Text} {s : Schema}
    (h : concreteDefinition c = .ok (k, s)) (hleaf : c.cdesc = []) (hw : c.withModelType = true)
    (hnp : c.inh.any (·.withModelType) = false)
    {kvs : List (Text × Json)} (hmiss : hasKey modelTypeKey kvs = false) : ¬ Valid defs s (.obj kvs) := by
  intro hv
  have := concrete_leaf_modelType_required defs h hleaf hw hnp hv
  rw [hmiss] at this
  cases this

/-- **a missing required property is rejected** -/
theorem required_missing_rejected (defs : Defs) {c : Cls} {k : Text} {s : Schema}
    (h : concreteDefinition c = .ok (k, s)) (hleaf : c.cdesc = [])
    (hnd : (c.props.map (·.name)).Nodup) {p : Prp} (hmem : p ∈ c.props) (hown : p.own = true)
    (hreq : p.optional = false) {sp : Schema} (hd : defineType p.ty = .ok sp)
    {kvs : List (Text × Json)} (hmiss : hasKey p.name kvs = false) : ¬ Valid defs s (.obj kvs) := by
  intro hv
  have := concrete_leaf_required defs h hleaf hnd hmem hown hreq hd hv
  rw [hmiss] at this
  cases this

/-- **everything at once for a stand-alone class**: whatever the class definition accepts is an
object with every required member, the right `modelType` and member values satisfying shape and
inferred constraints — so ANY single violation of those is rejected. -/
theorem standalone_enforced (defs : Defs) {c : Cls} {k : Text} {s : Schema}
    (h : concreteDefinition c = .ok (k, s)) (hleaf : c.cdesc = []) (hroot : c.inh = [])
    (hown : ∀ p ∈ c.props, p.own = true) (hnd : (c.props.map (·.name)).Nodup)
    (hnm : ∀ p ∈ c.props, p.name ≠ modelTypeKey) (j : Json) (hbad : ¬ StandaloneOK defs c j) :
    ¬ Valid defs s j :=
  fun hv => hbad ((standalone_iff defs h hleaf hroot hown hnd hnm j).mp hv)

/-! ## One step up the inheritance chain -/

/-- **a constraint declared in a parent is enforced on the child's documents**: the child's
definition references the parent's inheritable definition (`_define_all_of_for_inheritance`); if that
definition is in `defs` under the referenced name and `p` is an own property of the parent, a member
value breaking `p`'s annotation makes the child's definition reject the object. -/
theorem parent_property_enforced (defs : Defs) {c par : Cls} {k kp : Text} {s sp : Schema} {i : Inh}
    (h : concreteDefinition c = .ok (k, s)) (hleaf : c.cdesc = []) (hi : i ∈ c.inh)
    (hpar : inheritableDefinition par = .ok (kp, sp)) (hname : i.refName = kp)
    (hunique : ∀ s', lookup kp defs = some s' → s' = sp)
    (hnd : (par.props.map (·.name)).Nodup) {p : Prp} (hmem : p ∈ par.props) (hown : p.own = true)
    (hnm : p.name ≠ modelTypeKey) {spp : Schema} (hd : defineType p.ty = .ok spp)
    {kvs : List (Text × Json)} {v : Json} (hl : lookup p.name kvs = some v) (hbad : ¬ Sat defs p.ty v) :
    ¬ Valid defs s (.obj kvs) :=
  fun hv => hbad (JsonSchema.parent_property_enforced defs h hleaf hi hpar hname hunique hnd hmem hown hnm hd hv v hl)

/-- the step for longer chains: whatever an inheritable definition accepts is accepted by the
definitions it references in turn (so `inheritable_own_property` applies to every ancestor whose
definition is in `defs`) -/
theorem ancestor_step (defs : Defs) {c : Cls} {k : Text} {s : Schema}
    (h : inheritableDefinition c = .ok (k, s)) {j : Json} (hv : Valid defs s j) :
    ∀ i ∈ c.inh, Valid defs (refTo i.refName) j :=
  inheritable_parents defs h hv

/-- an inheritable definition enforces the annotations of the class's own properties -/
theorem inheritable_property_enforced (defs : Defs) {c : Cls} {k : Text} {s : Schema}
    (h : inheritableDefinition c = .ok (k, s))
    (hnd : (c.props.map (·.name)).Nodup) {p : Prp} (hmem : p ∈ c.props) (hown : p.own = true)
    (hnm : p.name ≠ modelTypeKey) {sp : Schema} (hd : defineType p.ty = .ok sp)
    {kvs : List (Text × Json)} {v : Json} (hl : lookup p.name kvs = some v) (hbad : ¬ Sat defs p.ty v) :
    ¬ Valid defs s (.obj kvs) :=
  fun hv => hbad (inheritable_own_property defs h hnd hmem hown hnm hd hv v hl)

/-- **tightening steps are sound**: what the parent imposes on the top node (`other`) together with
the steps the child's definition adds (`tightening that other`, which did not crash) implies the child's
full constraint (`that`), for every shape of value. -/
theorem tightening_steps_sound {that other t : Cons} (h : tightening that (some other) = .ok t)
    (sh : Shape) (j : Json) (ho : TransSpec sh other j) (ht : TransSpec sh t j) : TransSpec sh that j :=
  tightening_sound h sh j ho ht

/-- **the merged constraint of an inherited property is enforced** (one parent step): `q` is the
parent's own declaration of the property, `p` the child's inherited view (`p.parents = [q.ty.cons]`,
same shape — what the wire form records); if the member value breaks the child's FULL top-node
constraint `cs` (own class ∧ ancestor, as merged by the inference), the child's definition does not
accept the object: the parent's part is enforced through the `allOf` reference, the child's tightening
through its own `properties`. -/
theorem inherited_constraint_enforced (defs : Defs) {c par : Cls} {k kp : Text} {s sp : Schema} {i : Inh}
    (h : concreteDefinition c = .ok (k, s)) (hleaf : c.cdesc = []) (hi : i ∈ c.inh)
    (hpar : inheritableDefinition par = .ok (kp, sp)) (hname : i.refName = kp)
    (hunique : ∀ s', lookup kp defs = some s' → s' = sp)
    (hndc : (c.props.map (·.name)).Nodup) (hnmc : ∀ p ∈ c.props, p.name ≠ modelTypeKey)
    (hndp : (par.props.map (·.name)).Nodup)
    {p q : Prp} (hp : p ∈ c.props) (hpown : p.own = false)
    (hq : q ∈ par.props) (hqown : q.own = true) (hqn : q.name = p.name)
    (hshape : q.ty.shape = p.ty.shape) (hparents : p.parents = [q.ty.cons])
    {sq : Schema} (hd : defineType q.ty = .ok sq)
    {kvs : List (Text × Json)} {v : Json} (hl : lookup p.name kvs = some v)
    {cs : Cons} (hcs : p.ty.cons = some cs) (hbad : ¬ TransSpec p.ty.shape cs v) :
    ¬ Valid defs s (.obj kvs) :=
  fun hv => hbad (JsonSchema.inherited_constraint_enforced defs h hleaf hi hpar hname hunique hndc hnmc hndp
    hp hpown hq hqown hqn hshape hparents hd hv hl cs hcs)

/-! ## End to end: the generated `definitions` object

The look-up hypotheses are discharged for `defs = generate mm` (`Lemmas/JsonSchemaLookup`: keys are
unique, the final sort is a permutation): "rejected" now reads *the document does not validate
against `{"$ref": "#/definitions/<Class>"}` in the generated schema*. -/

/-- a document of a concrete leaf class whose member breaks the annotation of an OWN property (shape or
inferred constraint) does not validate against the generated schema -/
theorem generated_schema_enforces_own (mm : MM) (defs : Defs) (h : generate mm = .ok defs) {c : Cls}
    (hc : OurType.cls c ∈ mm.types) (hleaf : c.cdesc = []) (hconc : c.abstract = false)
    (hnd : (c.props.map (·.name)).Nodup) {p : Prp} (hmem : p ∈ c.props) (hown : p.own = true)
    (hnm : p.name ≠ modelTypeKey) {sp : Schema} (hd : defineType p.ty = .ok sp)
    {kvs : List (Text × Json)} {v : Json} (hl : lookup p.name kvs = some v) (hbad : ¬ Sat defs p.ty v) :
    ¬ Valid defs (refTo c.mt) (.obj kvs) := by
  obtain ⟨s, hs, hlk⟩ := generate_leaf_lookup mm defs h hc hleaf hconc
  rw [valid_ref_iff, hlk]
  rintro ⟨s', hs', hv⟩
  cases hs'
  exact own_property_enforced defs hs hleaf hnd hmem hown hnm hd hl hbad hv

/-- …or the annotation of a property declared in a PARENT class (abstract, or concrete with
descendants): the constraint inferred from an ancestor is enforced on the descendant's documents -/
theorem generated_schema_enforces_parent (mm : MM) (defs : Defs) (h : generate mm = .ok defs)
    {c par : Cls} (hc : OurType.cls c ∈ mm.types) (hpar : OurType.cls par ∈ mm.types)
    (hleaf : c.cdesc = []) (hconc : c.abstract = false) (hdesc : par.cdesc ≠ [])
    {i : Inh} (hi : i ∈ c.inh)
    (hname : i.refName = (if par.abstract then par.mt else sfx par.mt "_abstract"))
    (hnd : (par.props.map (·.name)).Nodup) {p : Prp} (hmem : p ∈ par.props) (hown : p.own = true)
    (hnm : p.name ≠ modelTypeKey) {spp : Schema} (hd : defineType p.ty = .ok spp)
    {kvs : List (Text × Json)} {v : Json} (hl : lookup p.name kvs = some v) (hbad : ¬ Sat defs p.ty v) :
    ¬ Valid defs (refTo c.mt) (.obj kvs) := by
  obtain ⟨s, hs, hlk⟩ := generate_leaf_lookup mm defs h hc hleaf hconc
  obtain ⟨kp, sp, hsp, hkp, hlkp⟩ := generate_inheritable_lookup mm defs h hpar hdesc
  rw [valid_ref_iff, hlk]
  rintro ⟨s', hs', hv⟩
  cases hs'
  refine parent_property_enforced defs hs hleaf hi hsp (hname.trans hkp.symm) ?_ hnd hmem hown hnm hd hl hbad hv
  intro s'' hs''
  rw [hlkp] at hs''
  cases hs''
  rfl

/-- …or the MERGED constraint (own class ∧ direct parent) of an inherited property -/
theorem generated_schema_enforces_inherited (mm : MM) (defs : Defs) (h : generate mm = .ok defs)
    {c par : Cls} (hc : OurType.cls c ∈ mm.types) (hpar : OurType.cls par ∈ mm.types)
    (hleaf : c.cdesc = []) (hconc : c.abstract = false) (hdesc : par.cdesc ≠ [])
    {i : Inh} (hi : i ∈ c.inh)
    (hname : i.refName = (if par.abstract then par.mt else sfx par.mt "_abstract"))
    (hndc : (c.props.map (·.name)).Nodup) (hnmc : ∀ p ∈ c.props, p.name ≠ modelTypeKey)
    (hndp : (par.props.map (·.name)).Nodup)
    {p q : Prp} (hp : p ∈ c.props) (hpown : p.own = false)
    (hq : q ∈ par.props) (hqown : q.own = true) (hqn : q.name = p.name)
    (hshape : q.ty.shape = p.ty.shape) (hparents : p.parents = [q.ty.cons])
    {sq : Schema} (hd : defineType q.ty = .ok sq)
    {kvs : List (Text × Json)} {v : Json} (hl : lookup p.name kvs = some v)
    {cs : Cons} (hcs : p.ty.cons = some cs) (hbad : ¬ TransSpec p.ty.shape cs v) :
    ¬ Valid defs (refTo c.mt) (.obj kvs) := by
  obtain ⟨s, hs, hlk⟩ := generate_leaf_lookup mm defs h hc hleaf hconc
  obtain ⟨kp, sp, hsp, hkp, hlkp⟩ := generate_inheritable_lookup mm defs h hpar hdesc
  rw [valid_ref_iff, hlk]
  rintro ⟨s', hs', hv⟩
  cases hs'
  refine inherited_constraint_enforced defs hs hleaf hi hsp (hname.trans hkp.symm) ?_ hndc hnmc hndp
    hp hpown hq hqown hqn hshape hparents hd hl hcs hbad hv
  intro s'' hs''
  rw [hlkp] at hs''
  cases hs''
  rfl

/-- a wrong `modelType` does not validate against the generated schema -/
theorem generated_schema_pins_modelType (mm : MM) (defs : Defs) (h : generate mm = .ok defs) {c : Cls}
    (hc : OurType.cls c ∈ mm.types) (hleaf : c.cdesc = []) (hconc : c.abstract = false)
    (hw : c.withModelType = true) {kvs : List (Text × Json)} {v : Json}
    (hl : lookup modelTypeKey kvs = some v) (hbad : v ≠ .str c.mt) :
    ¬ Valid defs (refTo c.mt) (.obj kvs) := by
  obtain ⟨s, hs, hlk⟩ := generate_leaf_lookup mm defs h hc hleaf hconc
  rw [valid_ref_iff, hlk]
  rintro ⟨s', hs', hv⟩
  cases hs'
  exact modelType_wrong_rejected defs hs hleaf hw hl hbad hv

/-- a missing required (own) member does not validate against the generated schema -/
theorem generated_schema_requires (mm : MM) (defs : Defs) (h : generate mm = .ok defs) {c : Cls}
    (hc : OurType.cls c ∈ mm.types) (hleaf : c.cdesc = []) (hconc : c.abstract = false)
    (hnd : (c.props.map (·.name)).Nodup) {p : Prp} (hmem : p ∈ c.props) (hown : p.own = true)
    (hreq : p.optional = false) {sp : Schema} (hd : defineType p.ty = .ok sp)
    {kvs : List (Text × Json)} (hmiss : hasKey p.name kvs = false) :
    ¬ Valid defs (refTo c.mt) (.obj kvs) := by
  obtain ⟨s, hs, hlk⟩ := generate_leaf_lookup mm defs h hc hleaf hconc
  rw [valid_ref_iff, hlk]
  rintro ⟨s', hs', hv⟩
  cases hs'
  exact required_missing_rejected defs hs hleaf hnd hmem hown hreq hd hmiss hv

/-! ### Non-vacuity -/

/-- `@serialization(with_model_type=True) class Lonely: x: int; name: str  (1 ≤ len(name) ≤ 3)` -/
def lonely : Cls := ⟨ascii "Lonely", false, true, [],
  [⟨ascii "x", false, true, .prim .int none, []⟩,
   ⟨ascii "name", false, true, .prim .str (some ⟨some ⟨some 1, some 3⟩, none⟩), []⟩], []⟩

example : ∃ s, concreteDefinition lonely = .ok (ascii "Lonely", s) ∧
    lonely.cdesc = [] ∧ lonely.inh = [] ∧ (∀ p ∈ lonely.props, p.own = true) ∧
    (∀ p ∈ lonely.props, p.name ≠ modelTypeKey) ∧
    (lonely.props.map (·.name)).Nodup ∧ lonely.inh.any (·.withModelType) = false ∧
    -- the SDK's document is accepted
    validates [] 6 s (.obj [(ascii "x", .int 3), (ascii "name", .str (ascii "abc")),
      (modelTypeKey, .str (ascii "Lonely"))]) = some true ∧
    -- one value breaks maxLength / the type / modelType / a required member
    validates [] 6 s (.obj [(ascii "x", .int 3), (ascii "name", .str (ascii "abcd")),
      (modelTypeKey, .str (ascii "Lonely"))]) = some false ∧
    validates [] 6 s (.obj [(ascii "x", .str (ascii "3")), (ascii "name", .str (ascii "abc")),
      (modelTypeKey, .str (ascii "Lonely"))]) = some false ∧
    validates [] 6 s (.obj [(ascii "x", .int 3), (ascii "name", .str (ascii "abc")),
      (modelTypeKey, .str (ascii "Other"))]) = some false ∧
    validates [] 6 s (.obj [(ascii "x", .int 3), (ascii "name", .str (ascii "abc"))]) = some false ∧
    validates [] 6 s (.obj [(ascii "name", .str (ascii "abc")),
      (modelTypeKey, .str (ascii "Lonely"))]) = some false := by
  refine ⟨_, rfl, rfl, rfl, by decide, by decide, by decide, by decide, ?_, ?_, ?_, ?_, ?_, ?_⟩ <;> decide

/-- `@abstract @serialization(with_model_type=True) class Root: name: str (len ≤ 3)`, `class Leaf(Root)` -/
def rootC : Cls := ⟨ascii "Root", true, true, [],
  [⟨ascii "name", false, true, .prim .str (some ⟨some ⟨none, some 3⟩, none⟩), []⟩], [ascii "Leaf"]⟩
def leafC : Cls := ⟨ascii "Leaf", false, true, [⟨ascii "Root", false, true⟩],
  [⟨ascii "name", false, false, .prim .str (some ⟨some ⟨some 2, some 3⟩, none⟩), [some ⟨some ⟨none, some 3⟩, none⟩]⟩], []⟩
def twoDefs : Defs := match generate ⟨[.cls rootC, .cls leafC]⟩ with | .ok d => d | _ => []

/-- the hypotheses of `parent_property_enforced` are met by a two-class hierarchy; the parent's bound is
enforced on the child's document although the child's own definition does not mention it -/
example : (match concreteDefinition leafC, inheritableDefinition rootC with
    | .ok (k, s), .ok (kp, _) =>
      k == ascii "Leaf" && kp == ascii "Root" && (lookup kp twoDefs).isSome &&
      (refsSchema s).contains (ascii "Root") &&
      validates twoDefs 12 s (.obj [(ascii "name", .str (ascii "abc")), (modelTypeKey, .str (ascii "Leaf"))]) == some true &&
      validates twoDefs 12 s (.obj [(ascii "name", .str (ascii "abcd")), (modelTypeKey, .str (ascii "Leaf"))]) == some false &&
      validates twoDefs 12 s (.obj [(ascii "name", .str (ascii "abc"))]) == some false &&
      -- the child's tightening (`len ≥ 2`, merged with the parent's `len ≤ 3`)
      validates twoDefs 12 s (.obj [(ascii "name", .str (ascii "a")), (modelTypeKey, .str (ascii "Leaf"))]) == some false
    | _, _ => false) = true := by decide

/-! ## Patterns, in the denotational semantics -/

/-- **`pattern_miss_rejected`, in the semantics.** A string in whose UTF-16 units one of the inferred
patterns (parsed after the rewriting for UTF-16 engines) has NO match — no substring `b` of
`Fix16.utf16 t = a ++ b ++ c` with `Retree.MUnion re a b c` — is rejected. -/
theorem pattern_miss_rejected_semantic (defs : Defs) (cs : Cons) (ps : List Text) (p : Text) (re : Regex)
    (s : Schema) (t : Text) (hp : cs.pats = some ps) (hmem : p ∈ ps) (hfix : fixPattern p = .ok re)
    (hmiss : ¬ Search re (Fix16.utf16 t))
    (h : defineType (.prim .str (some cs)) = .ok s) : ¬ Valid defs s (.str t) :=
  pattern_miss_rejected defs cs ps p re s t hp hmem hfix ((searchB_ne_yes_iff re _).mpr hmiss) h

/-- … and the validator says so DEFINITELY: the `pattern` keyword answers `some false` (not "out of
fuel") on such a string. -/
theorem pattern_miss_definite (defs : Defs) (r : Schema → Json → Option Bool) (re : Regex) (t : Text)
    (hmiss : ¬ Search re (Fix16.utf16 t)) : validKw defs r (.pattern re) (.str t) = some false := by
  simp only [validKw, (searchB_no_iff re _).mpr hmiss, R.toO]

/-- non-vacuity: `^a$` has no match in `ab` -/
example : ¬ Search (.mk [.mk [.mk (.sym .start) none, .mk (.char ⟨97, false⟩) none, .mk (.sym .stop) none]])
    [97, 98] := by
  rw [← searchB_no_iff]; decide

/-! ## Whole documents: ancestor paths of any length, several parents, classes with descendants

`DocOK mm defs c j` (`Lemmas/JsonSchemaDocument`): `j` is an object, carries `modelType = c` if the class
has a model type, and for `c` and EACH ancestor `b` of `c` (`ancestorsOf mm c`: every path of
`inheritances`) the own required members of `b` are present and every present member value meets the
annotation (where `b` declares the property) resp. the complete merged constraint of the top node
(where `b` inherits it).  `hierOK mm` is the decidable consistency of the input (`Model/JsonSchemaHier`). -/

/-- **tightening steps are sound for ANY number of parents**: what EVERY constraining direct parent
imposes on the top node together with the steps the class emits (`tightenAll`: the steps common to all
parents, `_common_tightening_steps`) implies the class's complete constraints — also in a diamond. -/
theorem tightening_steps_sound_all_parents {full T : Cons} {parents : List (Option Cons)}
    (h : tightenAll full parents = .ok T) (sh : Shape) (j : Json)
    (hpar : ∀ pc, some pc ∈ parents → TransSpec sh pc j) (hT : TransSpec sh T j) : TransSpec sh full j :=
  tightenAll_sound h sh j hpar hT

/-- **`document_enforced`.**  Whatever `{"$ref": "#/definitions/<c>"}` accepts is a well-formed
document of the concrete class `c`: ANY violation — of a constraint inferred from the class itself or
from an ancestor at any distance, of `modelType`, of a required member of any ancestor, of a value's
type — makes the generated schema reject. -/
theorem document_enforced (mm : MM) (defs : Defs) (h : generate mm = .ok defs) (hwf : hierOK mm = true)
    {c : Cls} (hc : OurType.cls c ∈ mm.types) (hconc : c.abstract = false) (j : Json)
    (hbad : ¬ DocOK mm defs c j) : ¬ Valid defs (refTo c.mt) j :=
  fun hv => hbad ((document_iff mm defs h hwf hc hconc j).mp hv)

/-- a value that is not an object is rejected -/
theorem generated_schema_rejects_non_object (mm : MM) (defs : Defs) (h : generate mm = .ok defs)
    (hwf : hierOK mm = true) {c : Cls} (hc : OurType.cls c ∈ mm.types) (hconc : c.abstract = false)
    (j : Json) (hj : ∀ kvs, j ≠ .obj kvs) : ¬ Valid defs (refTo c.mt) j := by
  refine document_enforced mm defs h hwf hc hconc j ?_
  rintro ⟨kvs, hk, _⟩
  exact hj kvs hk

/-- **a property declared in an ancestor at ANY distance** (or in the class itself): a member value
breaking the annotation where the property is declared (shape or inferred constraint, items
included) does not validate against the generated schema of the descendant — leaf class or class with
concrete descendants alike -/
theorem generated_schema_enforces_ancestor (mm : MM) (defs : Defs) (h : generate mm = .ok defs)
    (hwf : hierOK mm = true) {c b : Cls} (hc : OurType.cls c ∈ mm.types) (hconc : c.abstract = false)
    (hb : b ∈ c :: ancestorsOf mm c) {p : Prp} (hp : p ∈ b.props) (hown : p.own = true)
    {kvs : List (Text × Json)} {v : Json} (hl : lookup p.name kvs = some v) (hbad : ¬ Sat defs p.ty v) :
    ¬ Valid defs (refTo c.mt) (.obj kvs) := by
  intro hv
  obtain ⟨kvs', hj, _, hall⟩ := (document_iff mm defs h hwf hc hconc _).mp hv
  cases hj
  have := (hall b hb).2 p hp v hl
  unfold MemberOK at this
  rw [if_pos hown] at this
  exact hbad this

/-- **the merged constraint of a property, in every class along the chain**: `cs` is the complete
constraint inferred for the top node of property `p` in class `b` — the document's class or any of its
ancestors, `p` declared there or inherited through any number of parents; a member value breaking it
does not validate against the generated schema -/
theorem generated_schema_enforces_merged (mm : MM) (defs : Defs) (h : generate mm = .ok defs)
    (hwf : hierOK mm = true) {c b : Cls} (hc : OurType.cls c ∈ mm.types) (hconc : c.abstract = false)
    (hb : b ∈ c :: ancestorsOf mm c) {p : Prp} (hp : p ∈ b.props)
    {kvs : List (Text × Json)} {v : Json} (hl : lookup p.name kvs = some v)
    {cs : Cons} (hcs : p.ty.cons = some cs) (hbad : ¬ TransSpec p.ty.shape cs v) :
    ¬ Valid defs (refTo c.mt) (.obj kvs) := by
  intro hv
  obtain ⟨kvs', hj, _, hall⟩ := (document_iff mm defs h hwf hc hconc _).mp hv
  cases hj
  exact hbad (memberOK_top defs ((hall b hb).2 p hp v hl) cs hcs)

/-- **a required member of any ancestor** (or of the class itself) that is missing is rejected -/
theorem generated_schema_requires_ancestor (mm : MM) (defs : Defs) (h : generate mm = .ok defs)
    (hwf : hierOK mm = true) {c b : Cls} (hc : OurType.cls c ∈ mm.types) (hconc : c.abstract = false)
    (hb : b ∈ c :: ancestorsOf mm c) {p : Prp} (hp : p ∈ b.props) (hown : p.own = true)
    (hreq : p.optional = false) {kvs : List (Text × Json)} (hmiss : hasKey p.name kvs = false) :
    ¬ Valid defs (refTo c.mt) (.obj kvs) := by
  intro hv
  obtain ⟨kvs', hj, _, hall⟩ := (document_iff mm defs h hwf hc hconc _).mp hv
  cases hj
  have := (hall b hb).1 p hp hown hreq
  rw [hmiss] at this
  cases this

/-- **`modelType` wrong or missing** — for every concrete class that carries the model type, with or
without concrete descendants, wherever up the chain `modelType` is declared required -/
theorem generated_schema_modelType_enforced (mm : MM) (defs : Defs) (h : generate mm = .ok defs)
    (hwf : hierOK mm = true) {c : Cls} (hc : OurType.cls c ∈ mm.types) (hconc : c.abstract = false)
    (hw : c.withModelType = true) {kvs : List (Text × Json)}
    (hbad : lookup modelTypeKey kvs ≠ some (.str c.mt)) : ¬ Valid defs (refTo c.mt) (.obj kvs) := by
  intro hv
  obtain ⟨kvs', hj, hmt, _⟩ := (document_iff mm defs h hwf hc hconc _).mp hv
  cases hj
  exact hbad (hmt hw)

/-- **dispatch**: a value that is not a well-formed document of one of the alternatives is rejected by
the `_choice` definition (a wrong or unknown `modelType`, or any violation inside the document) -/
theorem choice_enforced (mm : MM) (defs : Defs) (h : generate mm = .ok defs) (hwf : hierOK mm = true)
    {c : Cls} (hc : OurType.cls c ∈ mm.types) (hdesc : c.cdesc ≠ [])
    (hch : choiceOK mm.types c = true) (hhas : hasChoice (classesInProperties mm) c = true) (j : Json)
    (hbad : ∀ d, OurType.cls d ∈ mm.types → d.abstract = false → d.mt ∈ choiceAlts c → ¬ DocOK mm defs d j) :
    ¬ Valid defs (refTo (sfx c.mt "_choice")) j := by
  intro hv
  obtain ⟨d, hd, hdc, _, hY, hdoc⟩ := (choice_iff mm defs h hwf hc hdesc hch hhas j).mp hv
  exact hbad d hd hdc hY hdoc

/-! ### Non-vacuity: the three-level chain of `Props.C11.chainMM` re-stated here

`Root` (abstract, `name: str`, `len ≤ 5`) ← `Mid` (concrete WITH a concrete descendant, tightens to
`1 ≤ len`) ← `Leaf` (tightens to `2 ≤ len`); `Holder.roots : List[Root]` with `len ≥ 1`. -/

def rootK : Cls := ⟨ascii "Root", true, true, [],
  [⟨ascii "kind", true, true, .enum (ascii "Kind"), []⟩,
   ⟨ascii "name", false, true, .prim .str (some ⟨some ⟨none, some 5⟩, none⟩), []⟩], [ascii "Mid", ascii "Leaf"]⟩
def midK : Cls := ⟨ascii "Mid", false, true, [⟨ascii "Root", false, true⟩],
  [⟨ascii "kind", true, false, .enum (ascii "Kind"), [none]⟩,
   ⟨ascii "name", false, false, .prim .str (some ⟨some ⟨some 1, some 5⟩, none⟩), [some ⟨some ⟨none, some 5⟩, none⟩]⟩],
  [ascii "Leaf"]⟩
def leafK : Cls := ⟨ascii "Leaf", false, true, [⟨ascii "Mid", true, true⟩],
  [⟨ascii "kind", true, false, .enum (ascii "Kind"), [none]⟩,
   ⟨ascii "name", false, false, .prim .str (some ⟨some ⟨some 2, some 5⟩, none⟩), [some ⟨some ⟨some 1, some 5⟩, none⟩]⟩,
   ⟨ascii "blob", true, true, .prim .bytes (some ⟨some ⟨none, some 4⟩, none⟩), []⟩], []⟩
def holderK : Cls := ⟨ascii "Holder", false, false, [],
  [⟨ascii "roots", false, true, .list (.cls (ascii "Root") true) (some ⟨some ⟨some 1, none⟩, none⟩), []⟩], []⟩
def chainMM : MM := ⟨[.enum (ascii "Kind") [ascii "b", ascii "a"], .cls rootK, .cls midK, .cls leafK, .cls holderK]⟩
def chainDefs : Defs := match generate chainMM with | .ok d => d | _ => []

example : hierOK chainMM = true ∧ choicesOK chainMM = true ∧
    (ancestorsOf chainMM leafK).map (·.mt) = [ascii "Mid", ascii "Root"] := by
  refine ⟨by decide, by decide, by decide⟩

/-- single violations on documents of `Leaf` (two steps below the declaring class), of `Mid` (a class with
concrete descendants) and inside a list dispatched through `Root_choice`: each is rejected definitely -/
example :
    -- the bound declared two levels up (`Root`: len ≤ 5)
    validates chainDefs 20 (refTo (ascii "Leaf")) (.obj [(ascii "name", .str (ascii "abcdef")),
      (modelTypeKey, .str (ascii "Leaf"))]) = some false ∧
    -- the tightening of the intermediate class / of the leaf itself
    validates chainDefs 20 (refTo (ascii "Leaf")) (.obj [(ascii "name", .str []),
      (modelTypeKey, .str (ascii "Leaf"))]) = some false ∧
    validates chainDefs 20 (refTo (ascii "Leaf")) (.obj [(ascii "name", .str (ascii "a")),
      (modelTypeKey, .str (ascii "Leaf"))]) = some false ∧
    -- a required member declared two levels up, `modelType` required two levels up
    validates chainDefs 20 (refTo (ascii "Leaf")) (.obj [(modelTypeKey, .str (ascii "Leaf"))]) = some false ∧
    validates chainDefs 20 (refTo (ascii "Leaf")) (.obj [(ascii "name", .str (ascii "abc"))]) = some false ∧
    -- the class with concrete descendants: wrong / missing `modelType`, the parent's bound
    validates chainDefs 20 (refTo (ascii "Mid")) (.obj [(ascii "name", .str (ascii "abc")),
      (modelTypeKey, .str (ascii "Leaf"))]) = some false ∧
    validates chainDefs 20 (refTo (ascii "Mid")) (.obj [(ascii "name", .str (ascii "abc"))]) = some false ∧
    validates chainDefs 20 (refTo (ascii "Mid")) (.obj [(ascii "name", .str (ascii "abcdef")),
      (modelTypeKey, .str (ascii "Mid"))]) = some false ∧
    -- dispatch: an item that is a fine `Mid` but claims to be a `Leaf` (len ≥ 2)
    validates chainDefs 20 (refTo (ascii "Holder")) (.obj [(ascii "roots", .arr [
      .obj [(ascii "name", .str (ascii "a")), (modelTypeKey, .str (ascii "Leaf"))]])]) = some false := by
  refine ⟨by decide, by decide, by decide, by decide, by decide, by decide, by decide, by decide, by decide⟩

/-! ### Non-vacuity: a diamond — two parents constraining the same inherited property

`A` (abstract, `x: str`, `len ≤ 9`) ← `B` (abstract, `1 ≤ len`), `C` (abstract, `len ≤ 5`) ← `D(B, C)` concrete:
the complete constraint of `D.x` is `1 ≤ len ≤ 5`, each half enforced through another parent. -/

def diaA : Cls := ⟨ascii "A", true, true, [],
  [⟨ascii "x", false, true, .prim .str (some ⟨some ⟨none, some 9⟩, none⟩), []⟩], [ascii "D"]⟩
def diaB : Cls := ⟨ascii "B", true, true, [⟨ascii "A", false, true⟩],
  [⟨ascii "x", false, false, .prim .str (some ⟨some ⟨some 1, some 9⟩, none⟩), [some ⟨some ⟨none, some 9⟩, none⟩]⟩], [ascii "D"]⟩
def diaC : Cls := ⟨ascii "C", true, true, [⟨ascii "A", false, true⟩],
  [⟨ascii "x", false, false, .prim .str (some ⟨some ⟨none, some 5⟩, none⟩), [some ⟨some ⟨none, some 9⟩, none⟩]⟩], [ascii "D"]⟩
def diaD : Cls := ⟨ascii "D", false, true, [⟨ascii "B", false, true⟩, ⟨ascii "C", false, true⟩],
  [⟨ascii "x", false, false, .prim .str (some ⟨some ⟨some 1, some 5⟩, none⟩),
    [some ⟨some ⟨some 1, some 9⟩, none⟩, some ⟨some ⟨none, some 5⟩, none⟩]⟩], []⟩
def diamondMM : MM := ⟨[.cls diaA, .cls diaB, .cls diaC, .cls diaD]⟩
def diamondDefs : Defs := match generate diamondMM with | .ok d => d | _ => []

example : hierOK diamondMM = true ∧
    (ancestorsOf diamondMM diaD).map (·.mt) = [ascii "B", ascii "A", ascii "C", ascii "A"] ∧
    validates diamondDefs 20 (refTo (ascii "D")) (.obj [(ascii "x", .str (ascii "abc")),
      (modelTypeKey, .str (ascii "D"))]) = some true ∧
    validates diamondDefs 20 (refTo (ascii "D")) (.obj [(ascii "x", .str []),
      (modelTypeKey, .str (ascii "D"))]) = some false ∧
    validates diamondDefs 20 (refTo (ascii "D")) (.obj [(ascii "x", .str (ascii "abcdef")),
      (modelTypeKey, .str (ascii "D"))]) = some false := by
  refine ⟨by decide, by decide, by decide, by decide, by decide⟩

end AasVerif.Props.C12
