import AasVerif.Lemmas.SortedEmit
import AasVerif.Lemmas.OutDir
import AasVerif.Gen.SortSites
import AasVerif.Gen.WriteSites
import AasVerif.Gen.StrSites
import AasVerif.Props.C05
import AasVerif.Props.C25
/-!
# C22 — Generation is deterministic (the order-normalisation part)

The schema generators remove the dependence on the *insertion order* of their intermediate
collections by sorting before they emit.  The theorems state, for the models of
`Model/SortedEmit.lean` (stable sort by a `str` key = lexicographic order on code points):

* what is emitted is independent of the insertion order — **exactly when** the sort keys are
  pairwise distinct (`sortBy_perm_invariant`, `sorted_emit_perm_invariant`,
  `xsd_sort_perm_invariant`); plain `sorted(<strings>)` needs no hypothesis
  (`sortTexts_perm_invariant`);
* with equal keys the result **does** depend on the insertion order, because the sort is stable
  (`stable_sort_ties_witness`, `xsd_sort_full_fails`); stability is also proved positively
  (`sortBy_stable`), which together with sortedness and permutation pins the result of any
  stable sort;
* the `assert len(children) == len(root)` of the XSD sorter and the `mapping[name]` lookups of
  the JSON-schema emission can not fail (`xsd_sort_never_asserts`, `emit_never_keyerror`);
* the regenerated skeleton tables `Gen/SortSites.lean` show the `sorted(…)` wrappers, the key
  function and the bucket order the models assume (`jsonschema_sites_sorted`, `xsd_skeleton`),
  and every place of the code base where the iteration order of a set is observable is one of
  the classified, order-irrelevant ones (`set_iterations_classified`);
* the output tree does not depend on what the output directory held before: the writing loop of
  the back ends (`Model/OutDir.lean`) makes every owned path read the same for all histories and
  leaves foreign files alone (`output_history_independent`); skipping a write is unobservable
  exactly for byte equality (`skip_if_bytes_equal_unobservable`) and observable for a comparison
  modulo line endings (`skip_if_equal_modulo_newlines_fails`); the regenerated table
  `Gen/WriteSites.lean` shows that every back end writes unconditionally (`write_sites_unconditional`).

The permutation invariance of `Hier.topo` (builder C05) and of the snippet-directory reading
(builder C25) belong to C22 as well and are re-exported here by the maintainer.
-/
namespace AasVerif.Props.C22
open AasVerif AasVerif.SortedEmit List

variable {α : Type}

/-! ## the stable sort -/

/-- `sorted(l, key=key)` is a permutation of `l`. -/
theorem sortBy_is_perm (key : α → Text) (l : List α) : (sortBy key l).Perm l :=
  sortBy_perm key l

/-- `sorted(l, key=key)` is ascending in the keys. -/
theorem sortBy_sorted (key : α → Text) (l : List α) :
    (sortBy key l).Pairwise (fun a b => tle (key a) (key b) = true) :=
  sortBy_pairwise key l

/-- Stability: the elements with one and the same key keep their original relative order. -/
theorem sortBy_stable (key : α → Text) (k : Text) (l : List α) :
    (sortBy key l).filter (fun a => key a == k) = l.filter (fun a => key a == k) := by
  apply filter_isort
  intro x y hx hy
  simp only [beq_iff_eq] at hx hy
  rw [hx, hy]
  exact tle_refl k

/-- **Insertion-order independence of a keyed sort**, with the exact hypothesis: the keys are
pairwise distinct. -/
theorem sortBy_perm_invariant (key : α → Text) {l l' : List α}
    (h : l.Perm l') (hk : (l.map key).Nodup) : sortBy key l = sortBy key l' := by
  apply isort_eq_of_perm _ (fun a b c => tle_trans (key a) (key b) (key c))
    (fun a b => tle_total (key a) (key b)) h
  intro a b ha hb hab hba
  exact key_inj_of_nodup key hk a b ha hb (tle_antisymm _ _ hab hba)

/-- Without the hypothesis the statement is false: two elements with the same key come out in
the order they went in (full statement
`∀ l l', l.Perm l' → sortBy key l = sortBy key l'` fails). -/
theorem stable_sort_ties_witness :
    ∃ l l' : List (Text × Nat), l.Perm l' ∧ sortBy Prod.fst l ≠ sortBy Prod.fst l' :=
  ⟨[([97], 0), ([97], 1)], [([97], 1), ([97], 0)], Perm.swap _ _ _, by decide⟩

/-- Plain `sorted(<list of str>)` (enumeration literal values, `model_types`): no hypothesis is
needed, equal strings are indistinguishable. -/
theorem sortTexts_perm_invariant {l l' : List Text} (h : l.Perm l') :
    sortTexts l = sortTexts l' := by
  apply isort_eq_of_perm _ (fun a b c => tle_trans a b c) (fun a b => tle_total a b) h
  intro a b _ _ hab hba
  exact tle_antisymm a b hab hba

theorem sortTexts_sorted (l : List Text) :
    (sortTexts l).Pairwise (fun a b => tle a b = true) := sortBy_pairwise id l

/-! ## JSON schema: `definitions` -/

/-- The `definitions_mapping[name]` lookups can not raise `KeyError`, and the emitted keys are
exactly the sorted keys. -/
theorem emit_never_keyerror {V : Type} (m : Dict V) :
    ∃ d, emitDefinitions m = some d ∧ d.map Prod.fst = sortTexts (m.map Prod.fst) := by
  apply mapM_lookup_some
  intro k hk
  exact (sortBy_perm id _).mem_iff.1 hk

/-- The emitted `definitions` are ascending in their names. -/
theorem emit_sorted {V : Type} (m d : Dict V) (h : emitDefinitions m = some d) :
    (d.map Prod.fst).Pairwise (fun a b => tle a b = true) := by
  obtain ⟨d', hd', hk⟩ := emit_never_keyerror m
  rw [h] at hd'
  cases hd'
  rw [hk]
  exact sortTexts_sorted _

/-- **Insertion-order independence of the emitted `definitions`**: two dicts with the same
bindings inserted in different orders are emitted identically. The hypothesis is the dict
invariant (pairwise distinct keys). -/
theorem sorted_emit_perm_invariant {V : Type} {l l' : Dict V}
    (h : l.Perm l') (hk : (l.map Prod.fst).Nodup) : emitDefinitions l = emitDefinitions l' := by
  unfold emitDefinitions
  rw [sortTexts_perm_invariant (h.map Prod.fst)]
  congr 1
  funext k
  rw [lookup_perm h hk k]

example : (([([98], 0), ([97], 1)] : Dict Nat).map Prod.fst).Nodup := by decide
example : emitDefinitions ([([98], 0), ([97], 1)] : Dict Nat) = some [([97], 1), ([98], 0)] := by
  decide

/-! ## XSD: `_sort_by_tags_and_names_in_place` -/

/-- The result is a permutation of the children of the root … -/
theorem xsd_children_perm (root : List Elt) : (xsdChildren root).Perm root := by
  unfold xsdChildren
  refine Perm.trans ?_ (classify_perm root)
  exact ((((sortBy_perm _ _).append (sortBy_perm _ _)).append (sortBy_perm _ _)).append
    (sortBy_perm _ _)).append (sortBy_perm _ _)

/-- … hence `assert len(children) == len(root)` never fires. -/
theorem xsd_sort_never_asserts (root : List Elt) : xsdSort root = some (xsdChildren root) := by
  unfold xsdSort
  simp only [(xsd_children_perm root).length_eq, ↓reduceIte]

/-- The hypothesis under which the result is independent of the document order: inside each of
the five lists the sort keys `elt.attrib.get("name", "")` are pairwise distinct.
(`_generate` rejects two *named* children with equal tag and name before sorting; children
without a `name` attribute, and differently tagged `miscellaneous` children of equal name,
are ties.) -/
def XsdKeysDistinct (root : List Elt) : Prop :=
  ∀ b ∈ (classify root).toList, (b.map nameKey).Nodup

instance (root : List Elt) : Decidable (XsdKeysDistinct root) := by
  unfold XsdKeysDistinct; infer_instance

/-- **Document-order independence of the sorted schema** under `XsdKeysDistinct`. -/
theorem xsd_sort_perm_invariant {root root' : List Elt}
    (h : root.Perm root') (hk : XsdKeysDistinct root) : xsdSort root = xsdSort root' := by
  rw [xsd_sort_never_asserts, xsd_sort_never_asserts]
  unfold xsdChildren
  simp only [XsdKeysDistinct, Buckets.toList, mem_cons, not_mem_nil, or_false, forall_eq_or_imp,
    forall_eq] at hk
  rw [classify_eq_filter root] at hk ⊢
  rw [classify_eq_filter root']
  obtain ⟨h0, h1, h2, h3, h4⟩ := hk
  simp only at h0 h1 h2 h3 h4 ⊢
  rw [sortBy_perm_invariant nameKey (h.filter _) h0, sortBy_perm_invariant nameKey (h.filter _) h1,
    sortBy_perm_invariant nameKey (h.filter _) h2, sortBy_perm_invariant nameKey (h.filter _) h3,
    sortBy_perm_invariant nameKey (h.filter _) h4]

/-- The full statement (`∀ root root', root.Perm root' → xsdSort root = xsdSort root'`) is
false: two children without a `name` attribute (e.g. two `xs:import`s) keep their document
order. -/
theorem xsd_sort_full_fails :
    ∃ root root' : List Elt, root.Perm root' ∧ xsdSort root ≠ xsdSort root' :=
  ⟨[⟨[120], none, 0⟩, ⟨[121], none, 1⟩], [⟨[121], none, 1⟩, ⟨[120], none, 0⟩], Perm.swap _ _ _,
    by decide⟩

example : XsdKeysDistinct
    [⟨xsElement, some [98], 0⟩, ⟨xsGroup, some [98], 1⟩, ⟨xsElement, some [97], 2⟩, ⟨[120], none, 3⟩] := by
  decide

/-- The sorted schema lists groups, simple types, complex types, elements, then the rest. -/
theorem xsd_children_grouped (root : List Elt) :
    (xsdChildren root).map bucketIdx =
      replicate ((root.filter (fun e => bucketIdx e == 0)).length) 0
      ++ replicate ((root.filter (fun e => bucketIdx e == 1)).length) 1
      ++ replicate ((root.filter (fun e => bucketIdx e == 2)).length) 2
      ++ replicate ((root.filter (fun e => bucketIdx e == 4)).length) 4
      ++ replicate ((root.filter (fun e => bucketIdx e == 3)).length) 3 := by
  unfold xsdChildren
  rw [classify_eq_filter root]
  simp only [map_append]
  have key : ∀ (i : Nat) (l : List Elt),
      (sortBy nameKey (l.filter (fun e => bucketIdx e == i))).map bucketIdx
        = replicate ((l.filter (fun e => bucketIdx e == i)).length) i := by
    intro i l
    rw [eq_replicate_iff]
    refine ⟨by rw [length_map, (sortBy_perm _ _).length_eq], ?_⟩
    intro b hb
    obtain ⟨e, he, rfl⟩ := mem_map.1 hb
    have := (sortBy_perm nameKey _).mem_iff.1 he
    simpa using (mem_filter.1 this).2
  rw [key 0, key 1, key 2, key 4, key 3]

/-! ## the regenerated skeletons (`Gen/SortSites.lean`) -/

/-- *Table*: the three emission sites of the JSON-schema generator iterate over `sorted(…)`
without `key=`/`reverse=`: the enumeration values, the model types, and the definitions
(`(k, m[k]) for k in sorted(keys(m))`) — what `sortTexts` / `emitDefinitions` model. -/
theorem jsonschema_sites_sorted :
    Gen.SortSites.jsonschemaSites =
      [⟨"enum-values", true, "", false, "x.value for x in literals"⟩,
       ⟨"model-types", true, "", false,
         "naming.json_model_type(x.name) for x in concrete_classes if 1"⟩,
       ⟨"definitions", true, "", false, "(k, m[k]) for k in keys(m)"⟩] := by decide

/-- *Table*: `_sort_by_tags_and_names_in_place` is the loop structure `classify`/`xsdChildren`
model: the `if/elif` chain over the four tags with `miscellaneous` as `else`, **every** list
sorted ascending by `elt.attrib.get("name", "")`, concatenated as groups, simple types,
complex types, elements, miscellaneous (the lists are numbered in this order, however they are
declared), the length assertion, `root[:] = children`; and
`_generate` calls it after the last mutation of the root and before serialising. -/
theorem xsd_skeleton :
    Gen.SortSites.xsdLists = 5 ∧
    Gen.SortSites.xsdTagChain = [(xsGroup, 0), (xsSimpleType, 1), (xsComplexType, 2), (xsElement, 3)] ∧
    Gen.SortSites.xsdElseList = 4 ∧
    (∀ i ∈ Gen.SortSites.xsdConcat, i ∈ Gen.SortSites.xsdSortedLists) ∧
    Gen.SortSites.xsdSortKey = "e.attrib.get('name', '')" ∧
    Gen.SortSites.xsdSortReverse = false ∧
    Gen.SortSites.xsdConcat = [0, 1, 2, 3, 4] ∧
    Gen.SortSites.xsdAssertsLength = true ∧
    Gen.SortSites.xsdWritesBack = true ∧
    Gen.SortSites.xsdSortedBeforeSerialisation = true := by decide

/-- The places where the iteration order of a `set`/`frozenset` is observable and that were
classified as order-irrelevant (see `design.d/C22.md`): assertion helpers that only build the
message of an `AssertionError` raised at import time, a boolean `all(…)` in a postcondition,
and two loops that only assert that every keyword is lower-case. -/
def classifiedSetIterations : List (String × String × String × String) :=
  [("aas_core_codegen/common.py", "assert_union_of_descendants_exhaustive", "comprehension", "union_diff"),
   ("aas_core_codegen/common.py", "assert_union_of_descendants_exhaustive", "comprehension", "subclass_diff"),
   ("aas_core_codegen/common.py", "assert_union_without_excluded", "comprehension", "intersection"),
   ("aas_core_codegen/common.py", "assert_union_without_excluded", "comprehension", "diff"),
   ("aas_core_codegen/intermediate/_types.py", "__init__", "comprehension", "self.literal_value_set"),
   ("aas_core_codegen/parse/_translate.py", "_verify_symbol_table", "for", "keywords_in_many_implementations"),
   ("aas_core_codegen/parse/_translate.py", "_verify_symbol_table", "for", "reserved_type_names"),
   ("aas_core_codegen/stringify.py", "assert_dispatch_exhaustive", "comprehension", "dumpable_diff"),
   ("aas_core_codegen/stringify.py", "assert_dispatch_exhaustive", "comprehension", "dispatch_diff")]

/-- *Table*: the static scan finds no iteration over a set-typed expression (and no
`sorted(…, key=id-based)`) in `aas_core_codegen/**` other than the classified ones — a new one
breaks this theorem and is then decided dynamically by the hash-seed runs of the oracle. -/
theorem set_iterations_classified :
    ∀ s ∈ Gen.SortSites.setIterations, s ∈ classifiedSetIterations := by decide


/-! ## The output directory: "regardless of pre-existing files" -/

section OutDir
open AasVerif.OutDir

/-- After the writing loop, a path the run writes to holds the same bytes whatever the output
directory held before (model of the `write_text` loop of every `<target>/main.py:execute`). -/
theorem write_owned_history_independent (files : List (Text × Text)) (fs fs' : Fs) (p : Text)
    (h : p ∈ files.map Prod.fst) :
    read (writeAll fs files) p = read (writeAll fs' files) p :=
  writeAll_agree files fs fs' p (Or.inl h)

/-- A pre-existing file at a path the run does not write to is left as it was. -/
theorem write_foreign_untouched (files : List (Text × Text)) (fs : Fs) (p : Text)
    (h : p ∉ files.map Prod.fst) : read (writeAll fs files) p = read fs p :=
  writeAll_foreign files fs p h

/-- **History independence of the output tree**: every path reads as after a run into an empty
directory if the run owns it, and as before the run otherwise. -/
theorem output_history_independent (files : List (Text × Text)) (fs : Fs) (p : Text) :
    read (writeAll fs files) p
      = if p ∈ files.map Prod.fst then read (writeAll [] files) p else read fs p := by
  by_cases h : p ∈ files.map Prod.fst
  · simp only [h, if_true]; exact writeAll_agree files fs [] p (Or.inl h)
  · simp only [h, if_false]; exact writeAll_foreign files fs p h

/-- Leaving a file alone when it holds *exactly* the new bytes can not be observed in the tree. -/
theorem skip_if_bytes_equal_unobservable (fs : Fs) (p c q : Text) :
    read (writeUnless (fun old new => old == new) fs p c) q = read (writeFile fs p c) q :=
  writeUnless_exact fs p c q

/-- Negation witness for a lenient comparison: a helper that compares through `read_text()`
(universal newlines) keeps a previous generation with CRLF line endings — the file `a` holding
`x\r\n` survives the generation of `x\n`, which a run into an empty directory writes. -/
theorem skip_if_equal_modulo_newlines_fails :
    read (writeUnless sameModuloNewlines [([97], [120, 13, 10])] [97] [120, 10]) [97] = some [120, 13, 10]
    ∧ read (writeUnless sameModuloNewlines [] [97] [120, 10]) [97] = some [120, 10] := by decide

/-- *Table* (`Gen/WriteSites.lean`, regenerated from the source): every back end changes files at
exactly one place, `execute`, by `<path>.write_text(<text>, encoding='utf-8')`; the function makes no
file-system query (`exists`, `is_file`, `stat`, `read_text`, …) and hands the path to nothing but the
error report — so `writeFile` is the model of each of them. -/
theorem write_sites_unconditional :
    Gen.WriteSites.writeSites.map (·.target)
        = ["cpp", "csharp", "golang", "java", "jsonschema", "python", "typescript", "xsd"]
    ∧ ∀ s ∈ Gen.WriteSites.writeSites,
        s.function = "execute" ∧ s.call = "_.write_text(_, encoding='utf-8')" ∧ s.fsReads = []
        ∧ s.pathPassedTo = ["run.write_error_report"] := by decide

end OutDir


/-! ## "Regardless of process": what the type-inference errors print as a type -/

/-- The expressions a `__str__` of a type annotation (`intermediate/type_inference.py`) may interpolate: names and
values (strings), the class name, and the nested type annotations (`items` of a list/set, `value` of an optional —
rendered by these same methods).  None of them is an object of the intermediate representation, whose `repr` is
`<intermediate.Cls name at 0x…>` and differs from process to process. -/
def addressFreeInterpolations : List String :=
  ["self.a_type.value", "self.our_type.name", "self.func.name", "self.method.name", "self.enumeration.name",
   "self.__class__.__name__", "self.items", "self.value"]

/-- *Table*: every concrete `__str__` of a type annotation interpolates address-free expressions only, so "the type"
printed in a type-inference error (of any SDK generator) is the same text in every process.  Interpolating the
function, the method, our type or the enumeration itself (the pinned tree did the latter, fixed in `07700284`)
breaks this theorem; the ill-typed invariant matrix of the oracle then delivers the failing input. -/
theorem type_str_address_free :
    ∀ s ∈ Gen.StrSites.typeStrSites, ∀ e ∈ s.2, e ∈ addressFreeInterpolations := by decide

/-- Non-vacuity: the scan finds the nine concrete type annotations. -/
example : Gen.StrSites.typeStrSites.length = 9 := by decide


/-! ## Order-independence of the passes proved for other properties (re-exported) -/

/-- The topological order of the classes (and hence every IR list derived from it) does not
depend on the order in which the classes are declared/listed (model of `_topologically_sort`, C05). -/
theorem topo_perm_invariant {cs cs' : List AasVerif.Hier.ParsedClass} (h : cs.Perm cs')
    (hu : AasVerif.Hier.UniqueNames cs) : AasVerif.Hier.topo cs = AasVerif.Hier.topo cs' :=
  AasVerif.Props.C05.topo_perm_invariant h hu

/-- Reading the snippet directory gives the same mapping, or the same errors in the same order,
for every order in which the file system lists the entries (model of `read_from_directory`, C25). -/
theorem readDir_perm_invariant (es es' : List AasVerif.Snippets.Entry) (hp : es.Perm es')
    (wf : AasVerif.Snippets.RelFunctional es) : AasVerif.Snippets.read es = AasVerif.Snippets.read es' :=
  AasVerif.Props.C25.readDir_perm_invariant es es' hp wf

end AasVerif.Props.C22
