import AasVerif.Lemmas.RevmTop
import AasVerif.Lemmas.RevmCtor
import AasVerif.Lemmas.RevmRunDiverge
import AasVerif.Gen.Revm
import AasVerif.Props.C16
/-!
# C18 — Regex VM programs match like the pattern

`translate` = model of `intermediate/revm.py:translate` (fresh labels → `_relabel_in_place` →
`_remove_noop_in_place`), `accepts` = documented thread semantics of the instructions,
`runCpp clr fuel` = the literal generated C++ `Match` loop (`clr` = `Pop` resets the `has_` bit),
`Accepted` = the pattern passed the front end (`Model/RevmSpec.lean`), `FullMatch` = `re.fullmatch`
(`Model/Retree/Sem.lean`).  The generated verification function returns `revm::Match(program, text)`
for the whole text; the Python SDK uses `re.match` on the anchored pattern — for accepted patterns and
texts without line breaks `FullMatch` and `PrefixMatch` coincide (`prefix_iff_full`).
-/
namespace AasVerif.Props.C18
open AasVerif AasVerif.Revm AasVerif.Retree

/-- (also C02) `revm.translate` raises nothing on a pattern the front end accepts: every `assert`,
`NotImplementedError`, icontract precondition and `KeyError` site of the model is unreachable. -/
theorem translate_total (r : Regex) (hr : Accepted r) : ∀ site, translate r ≠ .crash site := by
  intro site h
  obtain ⟨p, hp, _⟩ := translate_eq r hr
  rw [hp] at h
  cases h

/-- DESIGN 6.1: the faithful label-allocating translation with its two post-passes is *syntactically*
the clean compositional program (this subsumes `relabel_preserves` and `noop_removal_preserves`). -/
theorem translate_eq_compile (r : Regex) (hr : Accepted r) :
    ∃ p, translate r = .ok p ∧ instrs p = compileTop r := by
  obtain ⟨p, hp, h, _⟩ := translate_eq r hr
  exact ⟨p, hp, h⟩

/-- For EVERY regex on which `translate` returns (accepted or not): all jump/split targets are inside the
program (the pre-validation of the C++ `Match` never throws), the label column equals the instruction
index, no no-op survives, the last instruction is `match` (so `pc + 1` is always in range). -/
theorem labels_ok (r : Regex) (p : List Leaf) (h : translate r = .ok p) :
    targetsValid (instrs p) = true ∧
    (∀ (i : Nat) (x : Leaf) (l : Nat), p[i]? = some x → x.label = some l → l = i) ∧
    (∀ i ∈ instrs p, i ≠ .noop) ∧
    (instrs p).getLast? = some .matched := by
  obtain ⟨⟨h1, h2, _⟩, h3, h4⟩ := translate_props r p h
  refine ⟨h1, ?_, h2, h4⟩
  intro i x l hx hl
  have := h3 i x hx l hl
  omega

/-- Thompson construction is correct: the translated program, run by any implementation of the
documented instruction semantics, accepts exactly the texts that the pattern fully matches
(all quantifier forms `* + ? {m} {m,} {m,n}`, sets, complemented sets, `.`, inner `$`, unions, groups,
the `.*$` → early `match` shortcut). -/
theorem thompson_correct (r : Regex) (p : List Leaf) (s : Text) (hr : Accepted r)
    (hp : translate r = .ok p) (hs : NoLineBreak s) :
    accepts (instrs p) s ↔ FullMatch r s := by
  rw [(translate_accepted r p hr hp).1]
  exact compileTop_correct r s hr hs

/-- `re.match` (what the Python SDK calls) and `re.fullmatch` agree on accepted patterns. -/
theorem prefix_iff_full (r : Regex) (s : Text) (hr : Accepted r) (hs : NoLineBreak s) :
    PrefixMatch r s ↔ FullMatch r s :=
  prefixMatch_iff_fullMatch r s hr hs

/-- The generated `Match` loop (with `Pop` keeping the mark) computes the thread semantics. -/
theorem runCpp_refines (p : Program) (s : Text) (hp : WfProg p) (hs : SearchOk p) (b : Bool) :
    runCpp false (p.length + 1) p s = some (.ret b) → (b = true ↔ accepts p s) :=
  Revm.runCpp_refines p s hp hs b

/-- … and terminates on every well-formed program, ε-cycles included, within `p.length + 1` iterations of
each `while (!clist->Empty())` loop, without reaching an out-of-range index. -/
theorem runCpp_terminates (p : Program) (s : Text) (hp : WfProg p) :
    ∃ o, runCpp false (p.length + 1) p s = some o ∧ ∀ site, o ≠ .crash site :=
  Revm.runCpp_terminates p s hp

/-- The generator of the current tree emits the loop that the two theorems above are about. -/
theorem pop_keeps_mark : Gen.Revm.popClearsHas = false := by decide

/-- End to end: for an accepted pattern the generated C++ `Match` on the generated program returns, and
returns `true` exactly when the pattern fully matches the text. -/
theorem match_correct (r : Regex) (p : List Leaf) (s : Text) (hr : Accepted r)
    (hp : translate r = .ok p) (hs : NoLineBreak s) :
    ∃ b, runCpp Gen.Revm.popClearsHas ((instrs p).length + 1) (instrs p) s = some (.ret b) ∧
      (b = true ↔ FullMatch r s) := by
  rw [pop_keeps_mark]
  obtain ⟨_, hwf, hso⟩ := translate_accepted r p hr hp
  obtain ⟨o, ho, hnc⟩ := Revm.runCpp_terminates (instrs p) s hwf
  cases o with
  | crash site => exact absurd rfl (hnc site)
  | ret b =>
    refine ⟨b, ho, ?_⟩
    rw [Revm.runCpp_refines (instrs p) s hwf hso b ho]
    exact thompson_correct r p s hr hp hs

/-- The constructors of `InstructionSet`/`InstructionNotSet`/`Range` in the generated `revm.cpp` (which throw on
empty, unsorted or overlapping ranges while the program constant is initialised) do not throw for an accepted
pattern without a character set without ranges (`neU`). -/
theorem program_constructible (r : Regex) (p : List Leaf) (hr : Accepted r) (hne : neU r = true)
    (hp : translate r = .ok p) : cppConstructible (instrs p) = true :=
  translate_constructible r p hr hne hp

/-- … and no pattern has such a set any more: every tree the regex parser returns has non-empty character sets
(`C16.parse_outputs_inRange`; former finding C18-F1: `^[]a]$` was parsed as the empty set `[]` followed by `a]`,
and the generated C++ threw `std::invalid_argument` at static initialisation). So for every pattern text that
is parsed and accepted, the program constant is constructible. -/
theorem program_constructible_parsed (vs : List Part) (r : Regex) (p : List Leaf) (hparse : parse vs = .ok r)
    (hr : Accepted r) (hp : translate r = .ok p) : cppConstructible (instrs p) = true := by
  have hin := C16.parse_outputs_inRange vs r hparse
  unfold inRangeTop at hin
  simp only [Bool.and_eq_true] at hin
  exact program_constructible r p hr (neU_of_inRange r hin.1) hp

/-- the witness of the former finding: `^[]a]$` is parsed as `^`, the set `{], a}`, `$` -/
example : parse [.str [94, 91, 93, 97, 93, 36]] = .ok (.mk [.mk [.mk (.sym .start) none,
    .mk (.set false [⟨⟨93, false⟩, none⟩, ⟨⟨97, false⟩, none⟩]) none, .mk (.sym .stop) none]]) := rfl

/-- The binary search `CharacterInRanges` is the documented membership test on sorted ranges. -/
theorem character_in_ranges (rs : List Range) (c : Nat) (h : RangesSorted rs) :
    cppInRanges rs c = inRanges rs c :=
  cppInRanges_eq rs c h

/-! ## The loop as published (`Pop` resets `has_`): proved non-termination -/

/-- `^(a*)*b$` -/
def starStar : Regex :=
  .mk [.mk [.mk (.sym .start) none,
    .mk (.group (.mk [.mk [.mk (.char ⟨97, false⟩) (some ⟨false, 0, none⟩)]])) (some ⟨false, 0, none⟩),
    .mk (.char ⟨98, false⟩) none, .mk (.sym .stop) none]]

theorem starStar_accepted : Accepted starStar := (by decide : acceptedB starStar = true)

theorem starStar_program : ∃ p, translate starStar = .ok p ∧ instrs p = progStarStar :=
  ⟨_, rfl, rfl⟩

/-- With the published `Pop` the loop never returns on `"aab"` for the accepted pattern `^(a*)*b$`:
no fuel suffices (negation witness of `runCpp_terminates` for `clr = true`; confirmed on the compiled C++). -/
theorem runCpp_diverges_example : ∀ fuel, runCpp true fuel progStarStar [97, 97, 98] = none :=
  Revm.runCpp_diverges_example

/-! ## Non-vacuity -/

/-- `^(a|b)*c{2,3}$` meets the hypotheses. -/
example : Accepted (.mk [.mk [.mk (.sym .start) none,
    .mk (.group (.mk [.mk [.mk (.char ⟨97, false⟩) none], .mk [.mk (.char ⟨98, false⟩) none]])) (some ⟨false, 0, none⟩),
    .mk (.char ⟨99, false⟩) (some ⟨false, 2, some 3⟩), .mk (.sym .stop) none]]) := by
  unfold Accepted; decide

example : NoLineBreak [97, 98, 99, 99] := by
  intro c hc; simp at hc; omega

end AasVerif.Props.C18
