import AasVerif.Props.C15
import AasVerif.Props.C18
/-!
# C02 — the two algorithmic cores the property anchors, proved for other properties and re-exported

* schema-constraint inference (`infer_for_schema/_len.py`, `_inline.py`): reducing and merging length
  bounds never violates the `LenConstraint` precondition (C15);
* regex → VM program translation (`intermediate/revm.py`): total on every pattern the front end accepts,
  and the emitted program passes the pre-validation of the generated C++ (C18).
-/
namespace AasVerif.Props.C02Cores

theorem reduce_no_crash : type_of% @AasVerif.Props.C15.reduce_no_crash := @AasVerif.Props.C15.reduce_no_crash
theorem reduce_wf : type_of% @AasVerif.Props.C15.reduce_wf := @AasVerif.Props.C15.reduce_wf
theorem merge_no_crash : type_of% @AasVerif.Props.C15.merge_no_crash := @AasVerif.Props.C15.merge_no_crash
theorem translate_total : type_of% @AasVerif.Props.C18.translate_total := @AasVerif.Props.C18.translate_total
theorem labels_ok : type_of% @AasVerif.Props.C18.labels_ok := @AasVerif.Props.C18.labels_ok
theorem program_constructible : type_of% @AasVerif.Props.C18.program_constructible := @AasVerif.Props.C18.program_constructible

end AasVerif.Props.C02Cores
