import AasVerif.Lemmas.RulesStages
import AasVerif.Lemmas.RulesAncestors
import AasVerif.Lemmas.RulesOrder
/-!
# C06 — Accepted meta-models satisfy the structural rules

`Rules.check` is the executable checker structured like the battery of the real front end
(correspondence with the implementation: `harness/props/c06.py`); `Rules.Spec` states the
documented rules declaratively.  The theorems say that the checker accepts exactly the
meta-models that obey the rules — for every abstract meta-model, without size bounds.

Clauses of the documented rules that are *not* part of `Spec` (and not checked by `check`),
visibly:
* `:paramref:` and `:constraintref:` references (only `:class:`, `:attr:`, `:const:` are modelled);
* reserved names are not applied to enumeration literals and to argument names (the
  implementation does not either; the real `aas_core_meta` uses literals such as `Boolean`);
* constrained primitives (classes inheriting from a primitive type) and their invariants;
* type shapes of method and function arguments (the implementation checks properties only).
Planned, not proved: `stacked` (the order of inherited properties/invariants) against a declarative
characterisation (property C05); `Anchored p → p` starts with `^` and ends with `$` as a text.
-/
namespace AasVerif.Props.C06
open AasVerif AasVerif.Rules

/-- **Main theorem.** The checker reports nothing iff the meta-model obeys every structural rule. -/
theorem check_sound_complete (m : MM) : check m = [] ↔ Spec m := by
  unfold check stages
  rw [firstFailing_eq_nil]
  simp only [List.mem_cons, List.not_mem_nil, or_false, forall_eq_or_imp, forall_eq]
  constructor
  · rintro ⟨h1, h2, h3, h4, h5, h6, h7, h8⟩
    obtain ⟨a1, a2⟩ := (stage1_eq_nil m).mp h1
    obtain ⟨b1, b2, b3, b4⟩ := (stage2_eq_nil m).mp h2
    obtain ⟨f0, f1, f2⟩ := (stage6_eq_nil m).mp h6
    obtain ⟨g0, g1, g2, g3, g4, g5⟩ := (stage8_eq_nil m).mp h8
    exact {
      membersUnique := a1, symbolsUnique := a2,
      typeNamesFree := b1, memberNamesFree := b2, constNamesFree := b3, fnNamesFree := b4,
      parentsExist := (stage3_eq_nil m).mp h3,
      typesExist := (stage4_eq_nil m).mp h4,
      acyclic := (stage5_eq_nil m).mp h5,
      inheritedUnique := f0, noRedeclaration := f1, ctorInherited := f2,
      docsResolve := (docs_eq_nil m).mp ⟨h7, g0⟩,
      optionalDefaults := g1, ctorMatches := g2, shapes := g3, patterns := g4, invariantsUnique := g5 }
  · intro s
    obtain ⟨d7, d8⟩ := (docs_eq_nil m).mpr s.docsResolve
    exact ⟨(stage1_eq_nil m).mpr ⟨s.membersUnique, s.symbolsUnique⟩,
      (stage2_eq_nil m).mpr ⟨s.typeNamesFree, s.memberNamesFree, s.constNamesFree, s.fnNamesFree⟩,
      (stage3_eq_nil m).mpr s.parentsExist,
      (stage4_eq_nil m).mpr s.typesExist,
      (stage5_eq_nil m).mpr s.acyclic,
      (stage6_eq_nil m).mpr ⟨s.inheritedUnique, s.noRedeclaration, s.ctorInherited⟩,
      d7,
      (stage8_eq_nil m).mpr ⟨d8, s.optionalDefaults, s.ctorMatches, s.shapes, s.patterns, s.invariantsUnique⟩⟩

/-- A meta-model breaking any rule is rejected with at least one error, and only such a one. -/
theorem rejected_iff_rule_broken (m : MM) : check m ≠ [] ↔ ¬ Spec m := by
  rw [Ne, check_sound_complete]

/-- **Cycles.** The depth-first search with temporary and permanent marks reports a cycle iff some
class reaches itself through the transitive closure of `parent` — for every list of classes:
parents may be undeclared (skipped) or repeated, class names may repeat (first one wins). -/
theorem cycle_detected_iff (cs : List Cls) :
    (∃ n, dfsCycle cs = .cycle n) ↔ ∃ n, Reach cs n n :=
  Rules.cycle_detected_iff cs

/-- The class the search reports lies on a cycle. -/
theorem reported_class_on_cycle (cs : List Cls) (n : Text) (h : dfsCycle cs = .cycle n) : Reach cs n n :=
  dfs_cycle_real h

/-- The fuel of the search (number of classes + 1) is never exhausted: `Dfs.fuel` is unreachable. -/
theorem dfs_fuel_suffices (cs : List Cls) : dfsCycle cs ≠ .fuel :=
  Rules.dfs_fuel_suffices cs

/-- The permanent marks of a successful search are a topological order containing every class. -/
theorem dfs_ok_topological (cs : List Cls) (perm : List Text) (h : dfsCycle cs = .ok perm) :
    Topo cs perm ∧ ∀ c ∈ cs, c.name ∈ perm := by
  obtain ⟨t, _, m⟩ := okVisitAll_of_okVisit (okVisit cs _) _ _ _ _ h (by trivial : Topo cs [])
  exact ⟨t, fun c hc => m c.name (List.mem_map.mpr ⟨c, hc, rfl⟩)⟩

/-- **Duplicates.** The dictionary-based detection reports nothing iff the names are pairwise different. -/
theorem dup_check_iff_nodup (l : List Text) : dups [] l = [] ↔ l.Nodup :=
  dupCheck_iff_nodup l

/-- With a non-empty dictionary: nothing reported iff no duplicate and nothing observed before. -/
theorem dup_check_with_seen (seen l : List Text) : dups seen l = [] ↔ l.Nodup ∧ ∀ x ∈ l, x ∉ seen :=
  dups_eq_nil seen l

/-- A class body parses iff its properties and methods have pairwise different names. -/
theorem class_members_unique_iff (c : Cls) : classParse c = none ↔ (c.propNames ++ c.methods).Nodup :=
  classParse_none c

/-- **Type shapes.** The recursive test accepts iff no nested optional and no list of optionals
occurs at any depth. -/
theorem shape_check_iff (t : Ty) : (t.hasNestedOpt = false ∧ t.hasListOfOpt = false) ↔ t.Supported :=
  Ty.shape_ok_iff t

/-- **Constructors.** The loop with the accumulated error list reports nothing iff every class's
constructor matches its properties in name, order and type. -/
theorem ctor_loop_iff (m : MM) : matchErrors m = [] ↔ ∀ c ∈ m.classes, CtorMatches m.classes c :=
  matchErrors_eq_nil m

/-- A matching constructor leaves no property uninitialized (so the initialization stage, which
hides the matching stage in the implementation, never fires on a model that obeys the rules). -/
theorem ctor_match_initializes (m : MM) (h : ∀ c ∈ m.classes, CtorMatches m.classes c) : initErrors m = [] :=
  initErrors_of_matches m h

/-- **Patterns.** The test on the parsed pattern accepts iff it is exactly one alternative `^ … $`
(in particular non-empty). -/
theorem pattern_check_iff (p : Text) : patternError p = none ↔ Anchored p :=
  patternError_none_iff p

/-- The empty pattern is rejected. -/
theorem empty_pattern_rejected : patternError [] = some .patternEmpty := by decide

/-- `^a$|^b$` — anchored as a text, but a union at the top: rejected. -/
theorem union_pattern_rejected : patternError [94, 97, 36, 124, 94, 98, 36] = some .patternNotAnchored := by decide

/-- `^a$` is accepted. -/
theorem simple_pattern_accepted : patternError [94, 97, 36] = none := by decide

/-- Consequences of acceptance, rule by rule (the "only if" of the property statement). -/
theorem accepted_acyclic (m : MM) (h : check m = []) : ∀ n, ¬ Reach m.classes n n :=
  ((check_sound_complete m).mp h).acyclic

theorem accepted_parents_exist (m : MM) (h : check m = []) : ∀ c ∈ m.classes, ∀ p ∈ c.parents, p ∈ m.classNames :=
  ((check_sound_complete m).mp h).parentsExist

theorem accepted_names_unique (m : MM) (h : check m = []) :
    (m.typeNames ++ m.consts ++ m.fnNames).Nodup ∧ ∀ c ∈ m.classes, (c.propNames ++ c.methods).Nodup :=
  ⟨((check_sound_complete m).mp h).symbolsUnique, ((check_sound_complete m).mp h).membersUnique⟩

theorem accepted_shapes (m : MM) (h : check m = []) :
    ∀ c ∈ m.classes, ∀ p ∈ stackedProps m.classes c, p.ty.Supported :=
  ((check_sound_complete m).mp h).shapes

/-- **Ancestors are exact.** In an acyclic hierarchy the declared classes listed by `ancestors`
(with the fuel stage 6 supplies) are exactly those reached through the transitive closure of `parent`. -/
theorem ancestors_exact (cs : List Cls) (hac : ∀ n, ¬ Reach cs n n) (n a : Text) :
    (a ∈ ancestors cs cs.length n ∧ (findCls cs a).isSome) ↔ Reach cs n a :=
  mem_ancestors_iff_reach hac n a

/-- Listed ancestors are reached in every hierarchy, cyclic or not, for every fuel. -/
theorem ancestors_sound (cs : List Cls) (fuel : Nat) (n a : Text) (h : a ∈ ancestors cs fuel n)
    (hd : (findCls cs a).isSome) : Reach cs n a :=
  Rules.ancestors_sound cs fuel n a h hd

/-- **No re-declared inherited member**, stated with the transitive closure: in an accepted
meta-model no own member (property or method) of a class is named like a member of a class it reaches. -/
theorem accepted_no_redeclaration (m : MM) (h : check m = []) :
    ∀ c ∈ m.classes, ∀ n a, Reach m.classes c.name n → findCls m.classes n = some a →
      ∀ x ∈ c.propNames ++ c.methods, x ∉ a.propNames ++ a.methods := by
  intro c hc n a r hf x hx hxa
  have s := (check_sound_complete m).mp h
  have ha : a ∈ ancestorClasses m.classes c := (mem_ancestorClasses_iff s.acyclic c a).mpr ⟨n, r, hf⟩
  exact s.noRedeclaration c hc x hx (List.mem_flatMap.mpr ⟨a, ha, hxa⟩)

/-- non-vacuity of `ancestors_exact`: a chain `C → B → A` is acyclic and `C` reaches `A`. -/
example :
    let cs : List Cls := [⟨[65], [], [], [], [], none⟩, ⟨[66], [[65]], [], [], [], none⟩, ⟨[67], [[66]], [], [], [], none⟩]
    [65] ∈ ancestors cs cs.length [67] ∧ (findCls cs [65]).isSome := by decide

/-! ### Non-vacuity: a concrete meta-model that obeys every rule, and rejected ones -/

/-- enumeration `E {L}`; class `A {x: int; m(); invariant "d"}`; class `B(A) {y: Optional[List[A]]; invariant "e"}`
with the constructor `(x: int, y: Optional[List[A]] = None)`; constant `K`; pattern function `f` = `^a$`;
the docstring of `B` refers to `:attr:`x``, `:class:`E``, `:const:`K`` and `:attr:`E.L``. -/
def exampleMM : MM := {
  enums := [⟨[69], [[76]]⟩],
  classes := [⟨[65], [], [⟨[120], .prim [105, 110, 116]⟩], [[109]], [[100]], some [⟨[120], .prim [105, 110, 116], .absent⟩]⟩,
              ⟨[66], [[65]], [⟨[121], .opt (.list (.ref [65]))⟩], [], [[101]],
                some [⟨[120], .prim [105, 110, 116], .absent⟩, ⟨[121], .opt (.list (.ref [65])), .none⟩]⟩],
  consts := [[75]],
  fns := [⟨[102], some [94, 97, 36]⟩],
  docs := [⟨some [66], [.attr [120], .cls [69], .const [75], .attr2 [69] [76]]⟩] }

theorem example_accepted : check exampleMM = [] := by
  have h1 : stage1 exampleMM = [] := by decide
  have h2 : stage2 exampleMM = [] := by decide
  have h3 : stage3 exampleMM = [] := by decide
  have h4 : stage4 exampleMM = [] := by decide
  have h5 : stage5 exampleMM = [] := by
    simp [stage5, dfsCycle, visitAll, visit, parentsOf, findCls, exampleMM]
  have h6 : stage6 exampleMM = [] := by decide
  have h7 : stage7 exampleMM = [] := by decide
  have h8 : stage8 exampleMM = [] := by decide
  simp [check, stages, firstFailing, h1, h2, h3, h4, h5, h6, h7, h8]

/-- The specification is satisfiable by a non-trivial meta-model (inheritance, optional list
property, invariants, pattern, references). -/
theorem example_obeys_rules : Spec exampleMM := (check_sound_complete exampleMM).mp example_accepted

/-- `A(B)`, `B(A)`: rejected with `cycle`. -/
theorem cyclic_rejected :
    check { enums := [], classes := [⟨[65], [[66]], [], [], [], none⟩, ⟨[66], [[65]], [], [], [], none⟩],
            consts := [], fns := [], docs := [] } = [.cycle] := by
  simp [check, stages, firstFailing, stage1, stage2, stage3, stage4, stage5, dfsCycle, visitAll, visit, parentsOf,
    findCls, classParse, scanProps, scanMethods, Cls.propNames, dups, symbolNames, parsedClasses, MM.enumNames,
    MM.fnNames, MM.typeNames, MM.classNames, report, parentError, reservedTypeName, lower, lowerC,
    Gen.Rules.typePrefixes]
  decide

/-- A property typed `List[List[Optional[int]]]` (with the matching constructor): rejected with `listOfOptional`. -/
theorem nested_list_of_optional_rejected :
    stage8 { enums := [], classes := [⟨[65], [], [⟨[120], .list (.list (.opt (.prim [105, 110, 116])))⟩], [], [],
              some [⟨[120], .list (.list (.opt (.prim [105, 110, 116]))), .absent⟩]⟩],
             consts := [], fns := [], docs := [] } = [.listOfOptional] := by decide

/-! ### The regenerated tables still contain the names the generated SDKs rely on

`Gen/Rules.lean` is regenerated from `_verify_symbol_table` on every run; an entry removed from the
source tables breaks these table theorems (and the oracle, which uses a frozen copy of the tables,
then exhibits an accepted meta-model using the name). -/

/-- member names used by the generated SDKs (`descend`, `accept`, `transform`, `type_name`, …) are reserved -/
theorem sdk_member_names_reserved :
    ∀ n ∈ ([[100, 101, 115, 99, 101, 110, 100], [100, 101, 115, 99, 101, 110, 100, 95, 111, 110, 99, 101], [97, 99, 99, 101, 112, 116], [116, 114, 97, 110, 115, 102, 111, 114, 109], [116, 121, 112, 101, 95, 110, 97, 109, 101], [112, 114, 111, 112, 101, 114, 116, 121, 95, 110, 97, 109, 101], [109, 97, 116, 99, 104], [109, 111, 100, 101, 108, 95, 116, 121, 112, 101], [103, 101, 116, 95, 109, 111, 100, 101, 108, 95, 116, 121, 112, 101], [115, 101, 116, 95, 109, 111, 100, 101, 108, 95, 116, 121, 112, 101], [115, 101, 116, 95, 101, 110, 104, 97, 110, 99, 101, 109, 101, 110, 116], [103, 101, 116, 95, 101, 110, 104, 97, 110, 99, 101, 109, 101, 110, 116], [101, 110, 104, 97, 110, 99, 101, 109, 101, 110, 116]] : List Text),
      n ∈ Gen.Rules.reservedMemberNames := by decide

/-- type names used by the generated SDKs (`Class`, `Visitor`, `Path`, `Error`, …; lower-cased) are reserved -/
theorem sdk_type_names_reserved :
    ∀ n ∈ ([[97, 97, 115], [97, 99, 99, 101, 112, 116], [99, 111, 110, 116, 101, 120, 116], [99, 108, 97, 115, 115], [101, 114, 114, 111, 114], [101, 114, 114, 111, 114, 115], [105, 99, 108, 97, 115, 115], [105, 118, 105, 115, 105, 116, 111, 114], [106, 115, 111, 110, 105, 122, 97, 116, 105, 111, 110], [112, 97, 116, 104], [115, 116, 114, 105, 110, 103, 105, 102, 105, 99, 97, 116, 105, 111, 110], [116, 114, 97, 110, 115, 102, 111, 114, 109], [116, 114, 97, 110, 115, 102, 111, 114, 109, 101, 114], [118, 101, 114, 105, 102, 105, 99, 97, 116, 105, 111, 110], [118, 105, 115, 105, 116], [118, 105, 115, 105, 116, 97, 116, 105, 111, 110], [118, 105, 115, 105, 116, 111, 114], [109, 97, 116, 99, 104], [99, 111, 110, 115, 116, 97, 110, 116, 115], [109, 111, 100, 101, 108, 95, 116, 121, 112, 101], [101, 110, 104, 97, 110, 99, 101, 109, 101, 110, 116], [101, 110, 104, 97, 110, 99, 101, 100], [100, 101, 115, 99, 101, 110, 116], [105, 116, 101, 114, 97, 116, 111, 114], [114, 101, 99, 111, 114, 100], [112, 97, 114, 116, 105, 97, 108], [114, 101, 113, 117, 105, 114, 101, 100], [114, 101, 97, 100, 111, 110, 108, 121], [112, 105, 99, 107], [111, 109, 105, 116]] : List Text),
      n ∈ Gen.Rules.reservedTypeNames := by decide

/-- a cross-section of keywords of the target languages is reserved for types and for members -/
theorem target_keywords_reserved :
    ∀ n ∈ ([[99, 108, 97, 115, 115], [102, 111, 114], [119, 104, 105, 108, 101], [114, 101, 116, 117, 114, 110], [105, 102], [101, 108, 115, 101], [105, 110, 116], [102, 108, 111, 97, 116], [98, 111, 111, 108], [115, 116, 114, 105, 110, 103], [110, 97, 109, 101, 115, 112, 97, 99, 101], [105, 110, 116, 101, 114, 102, 97, 99, 101], [105, 109, 112, 111, 114, 116], [112, 97, 99, 107, 97, 103, 101], [102, 117, 110, 99], [118, 97, 114], [115, 116, 114, 117, 99, 116], [115, 119, 105, 116, 99, 104], [99, 97, 115, 101], [100, 101, 102, 97, 117, 108, 116], [110, 101, 119], [100, 101, 108, 101, 116, 101], [112, 117, 98, 108, 105, 99], [112, 114, 105, 118, 97, 116, 101], [115, 116, 97, 116, 105, 99], [118, 111, 105, 100], [100, 101, 102], [108, 97, 109, 98, 100, 97], [121, 105, 101, 108, 100], [97, 115, 121, 110, 99], [97, 119, 97, 105, 116], [102, 117, 110, 99, 116, 105, 111, 110], [116, 121, 112, 101, 111, 102], [105, 110, 115, 116, 97, 110, 99, 101, 111, 102], [111, 98, 106, 101, 99, 116], [98, 121, 116, 101, 115], [98, 121, 116, 101, 97, 114, 114, 97, 121], [115, 116, 114]] : List Text),
      n ∈ Gen.Rules.reservedTypeNames ∧ n ∈ Gen.Rules.reservedMemberNames := by decide +kernel

/-- the reserved prefixes: `I_` and `Must_` for types, `mutable` for members, `over…or_empty`/`…orempty`
for methods (as sets: the order of the checks in the source does not matter) -/
theorem reserved_prefixes :
    (∀ p, p ∈ Gen.Rules.typePrefixes ↔ p ∈ ([[73, 95], [77, 117, 115, 116, 95]] : List Text)) ∧
    Gen.Rules.memberPrefix = [109, 117, 116, 97, 98, 108, 101] ∧ Gen.Rules.overPrefix = [111, 118, 101, 114] ∧
    (∀ s, s ∈ Gen.Rules.overSuffixes ↔ s ∈ ([[111, 114, 95, 101, 109, 112, 116, 121], [111, 114, 101, 109, 112, 116, 121]] : List Text)) := by
  refine ⟨fun p => ⟨fun h => ?_, fun h => ?_⟩, by decide, by decide, fun s => ⟨fun h => ?_, fun h => ?_⟩⟩
  · revert p; decide
  · revert p; decide
  · revert s; decide
  · revert s; decide

/-- every entry of the tables is lower-case (the implementation asserts it; the checker compares lower-cased names) -/
theorem tables_lower_case :
    (∀ n ∈ Gen.Rules.reservedTypeNames, lower n = n) ∧ (∀ n ∈ Gen.Rules.reservedMemberNames, lower n = n) := by
  decide +kernel

/-! ### The order of the members of a class does not matter (stage 6 over the members in source order)

`parse.Class.methods` lists the functions of a class body in source order, `__init__` included; the abstract `Cls` keeps the
constructor apart.  `Model/RulesOrder.lean` models the dictionaries of `map_symbol_table_to_ontology` for an arbitrary place
`initAt` of `__init__` among the functions of every class. -/

/-- **The dictionary of observed methods does not depend on the member order**: a name other than `__init__` is a key of
`observed_methods` iff some ancestor declares a method of that name — for every place of `__init__` in every ancestor
(before / after the method, first / last member). -/
theorem observed_methods_order_free (initAt : Text → Nat) (ancs : List Cls) (n : Text) (hn : n ≠ initName) :
    n ∈ (observedMethods initAt [] ancs).map (·.1) ↔ ∃ a ∈ ancs, n ∈ a.methods := by
  rw [observed_iff_declared initAt ancs n hn, List.mem_flatMap]

/-- **Stage 6 over the members in source order reports the errors of `stage6`**, wherever `__init__` stands in every class
(hypothesis: no property or method is itself named `__init__`; `extract` never produces one). Together with
`check_sound_complete` / `accepted_no_redeclaration`: an inherited member declared again is rejected for every member order. -/
theorem stage6_source_order_free (initAt : Text → Nat) (m : MM)
    (h : ∀ c ∈ m.classes, initName ∉ c.propNames ∧ initName ∉ c.methods) :
    stage6Source initAt m = stage6 m :=
  stage6Source_eq initAt m h

/-- `Parent {x: int; __init__; do_something()}` and `Child(Parent) {do_something: int; __init__}`: the inherited method is
declared again as a property. -/
def redeclaredAfterInit : MM := {
  enums := [],
  classes := [⟨[80], [], [⟨[120], .prim [105, 110, 116]⟩], [[100, 111]], [], some [⟨[120], .prim [105, 110, 116], .absent⟩]⟩,
              ⟨[67], [[80]], [⟨[100, 111], .prim [105, 110, 116]⟩], [], [],
                some [⟨[120], .prim [105, 110, 116], .absent⟩, ⟨[100, 111], .prim [105, 110, 116], .absent⟩]⟩],
  consts := [], fns := [], docs := [] }

/-- … rejected wherever `__init__` is written in `Parent` and in `Child` (in particular BEFORE the method, `initAt = 0`);
also non-vacuity of the hypothesis of `stage6_source_order_free`. -/
theorem redeclared_after_init_rejected (initAt : Text → Nat) :
    stage6Source initAt redeclaredAfterInit = [.redeclaredProperty] := by
  rw [stage6_source_order_free initAt redeclaredAfterInit (by decide)]
  decide

/-- the source-order loop itself on the same model, `__init__` before the method: the method after `__init__` is observed -/
example : (observedMethods (fun _ => 0) [] redeclaredAfterInit.classes).map (·.1) = [initName, [100, 111]] := by decide

end AasVerif.Props.C06
