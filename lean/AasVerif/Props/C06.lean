import AasVerif.Lemmas.RulesStages
import AasVerif.Lemmas.RulesAncestors
/-!
# C06 — Accepted meta-models satisfy the structural rules

`Rules.check` is the executable checker structured like the battery of the real front end
(correspondence with the implementation: `harness/props/c06.py`); `Rules.Spec` states the
documented rules declaratively.  The theorems say that the checker accepts exactly the
meta-models that obey the rules — for every abstract meta-model, without size bounds.

Clauses of the documented rules that are *not* part of `Spec` (and not checked by `check`),
visibly:
* `:paramref:` and `:constraintref:` references (only `:class:`, `:attr:`, `:const:` are modelled);
* reserved names are not applied to enumeration literals and to argument names (the
  implementation does not either; the real `aas_core_meta` uses literals such as `Boolean`);
* constrained primitives (classes inheriting from a primitive type) and their invariants;
* type shapes of method and function arguments (the implementation checks properties only).
Planned, not proved: `stacked` (the order of inherited properties/invariants) against a declarative
characterisation (property C05); `Anchored p → p` starts with `^` and ends with `$` as a text.
-/
namespace AasVerif.Props.C06
open AasVerif AasVerif.Rules

/-- **Main theorem.** The checker reports nothing iff the meta-model obeys every structural rule. -/
theorem check_sound_complete (m : MM) : check m = [] ↔ Spec m := by
  unfold check stages
  rw [firstFailing_eq_nil]
  simp only [List.mem_cons, List.not_mem_nil, or_false, forall_eq_or_imp, forall_eq]
  constructor
  · rintro ⟨h1, h2, h3, h4, h5, h6, h7, h8⟩
    obtain ⟨a1, a2⟩ := (stage1_eq_nil m).mp h1
    obtain ⟨b1, b2, b3, b4⟩ := (stage2_eq_nil m).mp h2
    obtain ⟨f1, f2⟩ := (stage6_eq_nil m).mp h6
    obtain ⟨g0, g1, g2, g3, g4, g5⟩ := (stage8_eq_nil m).mp h8
    exact {
      membersUnique := a1, symbolsUnique := a2,
      typeNamesFree := b1, memberNamesFree := b2, constNamesFree := b3, fnNamesFree := b4,
      parentsExist := (stage3_eq_nil m).mp h3,
      typesExist := (stage4_eq_nil m).mp h4,
      acyclic := (stage5_eq_nil m).mp h5,
      noRedeclaration := f1, ctorInherited := f2,
      docsResolve := (docs_eq_nil m).mp ⟨h7, g0⟩,
      optionalDefaults := g1, ctorMatches := g2, shapes := g3, patterns := g4, invariantsUnique := g5 }
  · intro s
    obtain ⟨d7, d8⟩ := (docs_eq_nil m).mpr s.docsResolve
    exact ⟨(stage1_eq_nil m).mpr ⟨s.membersUnique, s.symbolsUnique⟩,
      (stage2_eq_nil m).mpr ⟨s.typeNamesFree, s.memberNamesFree, s.constNamesFree, s.fnNamesFree⟩,
      (stage3_eq_nil m).mpr s.parentsExist,
      (stage4_eq_nil m).mpr s.typesExist,
      (stage5_eq_nil m).mpr s.acyclic,
      (stage6_eq_nil m).mpr ⟨s.noRedeclaration, s.ctorInherited⟩,
      d7,
      (stage8_eq_nil m).mpr ⟨d8, s.optionalDefaults, s.ctorMatches, s.shapes, s.patterns, s.invariantsUnique⟩⟩

/-- A meta-model breaking any rule is rejected with at least one error, and only such a one. -/
theorem rejected_iff_rule_broken (m : MM) : check m ≠ [] ↔ ¬ Spec m := by
  rw [Ne, check_sound_complete]

/-- **Cycles.** The depth-first search with temporary and permanent marks reports a cycle iff some
class reaches itself through the transitive closure of `parent` — for every list of classes:
parents may be undeclared (skipped) or repeated, class names may repeat (first one wins). -/
theorem cycle_detected_iff (cs : List Cls) :
    (∃ n, dfsCycle cs = .cycle n) ↔ ∃ n, Reach cs n n :=
  Rules.cycle_detected_iff cs

/-- The class the search reports lies on a cycle. -/
theorem reported_class_on_cycle (cs : List Cls) (n : Text) (h : dfsCycle cs = .cycle n) : Reach cs n n :=
  dfs_cycle_real h

/-- The fuel of the search (number of classes + 1) is never exhausted: `Dfs.fuel` is unreachable. -/
theorem dfs_fuel_suffices (cs : List Cls) : dfsCycle cs ≠ .fuel :=
  Rules.dfs_fuel_suffices cs

/-- The permanent marks of a successful search are a topological order containing every class. -/
theorem dfs_ok_topological (cs : List Cls) (perm : List Text) (h : dfsCycle cs = .ok perm) :
    Topo cs perm ∧ ∀ c ∈ cs, c.name ∈ perm := by
  obtain ⟨t, _, m⟩ := okVisitAll_of_okVisit (okVisit cs _) _ _ _ _ h (by trivial : Topo cs [])
  exact ⟨t, fun c hc => m c.name (List.mem_map.mpr ⟨c, hc, rfl⟩)⟩

/-- **Duplicates.** The dictionary-based detection reports nothing iff the names are pairwise different. -/
theorem dup_check_iff_nodup (l : List Text) : dups [] l = [] ↔ l.Nodup :=
  dupCheck_iff_nodup l

/-- With a non-empty dictionary: nothing reported iff no duplicate and nothing observed before. -/
theorem dup_check_with_seen (seen l : List Text) : dups seen l = [] ↔ l.Nodup ∧ ∀ x ∈ l, x ∉ seen :=
  dups_eq_nil seen l

/-- A class body parses iff its properties and methods have pairwise different names. -/
theorem class_members_unique_iff (c : Cls) : classParse c = none ↔ (c.propNames ++ c.methods).Nodup :=
  classParse_none c

/-- **Type shapes.** The recursive test accepts iff no nested optional and no list of optionals
occurs at any depth. -/
theorem shape_check_iff (t : Ty) : (t.hasNestedOpt = false ∧ t.hasListOfOpt = false) ↔ t.Supported :=
  Ty.shape_ok_iff t

/-- **Constructors.** The loop with the accumulated error list reports nothing iff every class's
constructor matches its properties in name, order and type. -/
theorem ctor_loop_iff (m : MM) : matchErrors m = [] ↔ ∀ c ∈ m.classes, CtorMatches m.classes c :=
  matchErrors_eq_nil m

/-- A matching constructor leaves no property uninitialized (so the initialization stage, which
hides the matching stage in the implementation, never fires on a model that obeys the rules). -/
theorem ctor_match_initializes (m : MM) (h : ∀ c ∈ m.classes, CtorMatches m.classes c) : initErrors m = [] :=
  initErrors_of_matches m h

/-- **Patterns.** The test on the parsed pattern accepts iff it is exactly one alternative `^ … $`
(in particular non-empty). -/
theorem pattern_check_iff (p : Text) : patternError p = none ↔ Anchored p :=
  patternError_none_iff p

/-- The empty pattern is rejected. -/
theorem empty_pattern_rejected : patternError [] = some .patternEmpty := by decide

/-- `^a$|^b$` — anchored as a text, but a union at the top: rejected. -/
theorem union_pattern_rejected : patternError [94, 97, 36, 124, 94, 98, 36] = some .patternNotAnchored := by decide

/-- `^a$` is accepted. -/
theorem simple_pattern_accepted : patternError [94, 97, 36] = none := by decide

/-- Consequences of acceptance, rule by rule (the "only if" of the property statement). -/
theorem accepted_acyclic (m : MM) (h : check m = []) : ∀ n, ¬ Reach m.classes n n :=
  ((check_sound_complete m).mp h).acyclic

theorem accepted_parents_exist (m : MM) (h : check m = []) : ∀ c ∈ m.classes, ∀ p ∈ c.parents, p ∈ m.classNames :=
  ((check_sound_complete m).mp h).parentsExist

theorem accepted_names_unique (m : MM) (h : check m = []) :
    (m.typeNames ++ m.consts ++ m.fnNames).Nodup ∧ ∀ c ∈ m.classes, (c.propNames ++ c.methods).Nodup :=
  ⟨((check_sound_complete m).mp h).symbolsUnique, ((check_sound_complete m).mp h).membersUnique⟩

theorem accepted_shapes (m : MM) (h : check m = []) :
    ∀ c ∈ m.classes, ∀ p ∈ stackedProps m.classes c, p.ty.Supported :=
  ((check_sound_complete m).mp h).shapes

/-- **Ancestors are exact.** In an acyclic hierarchy the declared classes listed by `ancestors`
(with the fuel stage 6 supplies) are exactly those reached through the transitive closure of `parent`. -/
theorem ancestors_exact (cs : List Cls) (hac : ∀ n, ¬ Reach cs n n) (n a : Text) :
    (a ∈ ancestors cs cs.length n ∧ (findCls cs a).isSome) ↔ Reach cs n a :=
  mem_ancestors_iff_reach hac n a

/-- Listed ancestors are reached in every hierarchy, cyclic or not, for every fuel. -/
theorem ancestors_sound (cs : List Cls) (fuel : Nat) (n a : Text) (h : a ∈ ancestors cs fuel n)
    (hd : (findCls cs a).isSome) : Reach cs n a :=
  Rules.ancestors_sound cs fuel n a h hd

/-- **No re-declared inherited member**, stated with the transitive closure: in an accepted
meta-model no own member (property or method) of a class is named like a member of a class it reaches. -/
theorem accepted_no_redeclaration (m : MM) (h : check m = []) :
    ∀ c ∈ m.classes, ∀ n a, Reach m.classes c.name n → findCls m.classes n = some a →
      ∀ x ∈ c.propNames ++ c.methods, x ∉ a.propNames ++ a.methods := by
  intro c hc n a r hf x hx hxa
  have s := (check_sound_complete m).mp h
  have ha : a ∈ ancestorClasses m.classes c := (mem_ancestorClasses_iff s.acyclic c a).mpr ⟨n, r, hf⟩
  exact s.noRedeclaration c hc x hx (List.mem_flatMap.mpr ⟨a, ha, hxa⟩)

/-- non-vacuity of `ancestors_exact`: a chain `C → B → A` is acyclic and `C` reaches `A`. -/
example :
    let cs : List Cls := [⟨[65], [], [], [], [], none⟩, ⟨[66], [[65]], [], [], [], none⟩, ⟨[67], [[66]], [], [], [], none⟩]
    [65] ∈ ancestors cs cs.length [67] ∧ (findCls cs [65]).isSome := by decide

/-! ### Non-vacuity: a concrete meta-model that obeys every rule, and rejected ones -/

/-- enumeration `E {L}`; class `A {x: int; m(); invariant "d"}`; class `B(A) {y: Optional[List[A]]; invariant "e"}`
with the constructor `(x: int, y: Optional[List[A]] = None)`; constant `K`; pattern function `f` = `^a$`;
the docstring of `B` refers to `:attr:`x``, `:class:`E``, `:const:`K`` and `:attr:`E.L``. -/
def exampleMM : MM := {
  enums := [⟨[69], [[76]]⟩],
  classes := [⟨[65], [], [⟨[120], .prim [105, 110, 116]⟩], [[109]], [[100]], some [⟨[120], .prim [105, 110, 116], .absent⟩]⟩,
              ⟨[66], [[65]], [⟨[121], .opt (.list (.ref [65]))⟩], [], [[101]],
                some [⟨[120], .prim [105, 110, 116], .absent⟩, ⟨[121], .opt (.list (.ref [65])), .none⟩]⟩],
  consts := [[75]],
  fns := [⟨[102], some [94, 97, 36]⟩],
  docs := [⟨some [66], [.attr [120], .cls [69], .const [75], .attr2 [69] [76]]⟩] }

theorem example_accepted : check exampleMM = [] := by
  have h1 : stage1 exampleMM = [] := by decide
  have h2 : stage2 exampleMM = [] := by decide
  have h3 : stage3 exampleMM = [] := by decide
  have h4 : stage4 exampleMM = [] := by decide
  have h5 : stage5 exampleMM = [] := by
    simp [stage5, dfsCycle, visitAll, visit, parentsOf, findCls, exampleMM]
  have h6 : stage6 exampleMM = [] := by decide
  have h7 : stage7 exampleMM = [] := by decide
  have h8 : stage8 exampleMM = [] := by decide
  simp [check, stages, firstFailing, h1, h2, h3, h4, h5, h6, h7, h8]

/-- The specification is satisfiable by a non-trivial meta-model (inheritance, optional list
property, invariants, pattern, references). -/
theorem example_obeys_rules : Spec exampleMM := (check_sound_complete exampleMM).mp example_accepted

/-- `A(B)`, `B(A)`: rejected with `cycle`. -/
theorem cyclic_rejected :
    check { enums := [], classes := [⟨[65], [[66]], [], [], [], none⟩, ⟨[66], [[65]], [], [], [], none⟩],
            consts := [], fns := [], docs := [] } = [.cycle] := by
  simp [check, stages, firstFailing, stage1, stage2, stage3, stage4, stage5, dfsCycle, visitAll, visit, parentsOf,
    findCls, classParse, scanProps, scanMethods, Cls.propNames, dups, symbolNames, parsedClasses, MM.enumNames,
    MM.fnNames, MM.typeNames, MM.classNames, report, parentError, reservedTypeName, lower, lowerC,
    Gen.Rules.typePrefixes]
  decide

/-- A property typed `List[List[Optional[int]]]` (with the matching constructor): rejected with `listOfOptional`. -/
theorem nested_list_of_optional_rejected :
    stage8 { enums := [], classes := [⟨[65], [], [⟨[120], .list (.list (.opt (.prim [105, 110, 116])))⟩], [], [],
              some [⟨[120], .list (.list (.opt (.prim [105, 110, 116]))), .absent⟩]⟩],
             consts := [], fns := [], docs := [] } = [.listOfOptional] := by decide

end AasVerif.Props.C06
