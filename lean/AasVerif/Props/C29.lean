import AasVerif.Model.SdkDescend
import AasVerif.Gen.SdkDescend
/-!
# C29 — Python SDK traversal and accessors are complete
-/
namespace AasVerif.Props.C29
open AasVerif AasVerif.Sdk AasVerif.SdkDescend

/-- The statement templates of `_DescendBodyUnroller` are the five statement forms of `SdkDescend.Node`
(`yieldIt`, `yieldFromDescend`, `yieldFromIt`, `forEach`, `ifNotNone`), emitted by the methods the model
attributes them to. -/
theorem templates_are :
    Gen.SdkDescend.emitted =
      [("_unroll_primitive_type_annotation", []),
       ("_unroll_our_type_annotation", ["yield {unrollee_expr}", "yield from {unrollee_expr}.descend()"]),
       ("_unroll_list_type_annotation", ["yield from {unrollee_expr}", "for {loop_var} in {unrollee_expr}:"]),
       ("_unroll_optional_type_annotation", ["if {unrollee_expr} is not None:"])] := by
  decide

end AasVerif.Props.C29
