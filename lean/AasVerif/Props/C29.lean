import AasVerif.Lemmas.SdkDescendGen
import AasVerif.Model.SdkCtor
import AasVerif.Gen.SdkDescend
/-!
# C29 — Python SDK traversal and accessors are complete

Property theorems about `Model/SdkDescend.lean` (model of `python/lib/_generate_types.py`), for every
meta-model `mm` and every instance `i` that conforms to it (`Sdk.Conforms`: built from the classes of the
meta-model, type-conforming — "instance of the generated SDK").  `children`, `below`, `direct`, `pre`
are the declarative readings of the property text over the VALUE structure (no type annotation).
-/
namespace AasVerif.Props.C29
open AasVerif AasVerif.Sdk AasVerif.SdkDescend

/-! ## The generator never asserts -/

/-- `assert len(roots) > 0` in `_generate_descend_body` never fires, for any annotation (not only the
ones the front end accepts). -/
theorem generator_assert_never_fires (recurse : Bool) (t : Ty) :
    propBlock recurse t ≠ .error .genAssert := by
  rw [propBlock_eq]; intro h; cases h

/-- a property gets a block iff its annotation is descendable -/
theorem block_iff_descendable (recurse : Bool) (t : Ty) :
    propBlock recurse t = .ok [] ↔ descendable t = false := by
  rw [propBlock_eq]
  constructor
  · intro h
    have h' : unroll recurse t = [] := by injection h
    have := unroll_isEmpty recurse t
    rw [h'] at this
    simpa using this.symm
  · intro h; rw [unroll_eq_nil h]

/-! ## descend_once -/

/-- Descending once yields exactly the directly nested class instances, in property order and list
order: the generated `descend_once` of the instance's concrete class (type-directed unrolling) equals the
value-directed reading `children`. -/
theorem descendOnce_exact (mm : MM) (i : Val) (h : Conforms mm i) :
    descendOnce mm i = .ok (children i) := by
  obtain ⟨c, fs, rfl, hc⟩ := h
  obtain ⟨dd, hf, ha, hfs⟩ := conformsNN_inst hc
  simp [descendOnce, methodBody, hf, ha, children, execProps_once mm _ fs dd.props hfs]

/-- `children` spelled out: the properties in order, each flattened in list order -/
theorem children_eq (c : Name) (fs : Vals) :
    children (.inst c fs) = fs.toList.flatMap direct := by
  simp only [children]
  induction fs using Vals.induction_on with
  | nil => simp [directAll, Vals.toList]
  | cons v vs ih => simp [directAll, Vals.toList, ih]

/-! ## descend -/

/-- `descend` is the recursive generated method: executing the statements written by
`_DescendBodyUnroller(recurse=True)` for the instance's concrete class, with every nested
`.descend()` call answered by `descend`, gives `descend`. -/
theorem descend_is_generated_code (mm : MM) (i : Val) (h : Conforms mm i) :
    descend mm i = methodBody mm true (descend mm) i := by
  obtain ⟨c, fs, rfl, hc⟩ := h
  obtain ⟨dd, hf, ha, hfs⟩ := conformsNN_inst hc
  simp [descend, methodBody, hf, ha, execProps_descend mm fs dd.props hfs]

/-- Descending yields all transitively nested instances in pre-order: the containment tree below the
instance, without the root. -/
theorem descend_all_preorder (mm : MM) (i : Val) (h : Conforms mm i) :
    descend mm i = .ok (below i) := by
  obtain ⟨c, fs, rfl, hc⟩ := h
  obtain ⟨dd, hf, ha, hfs⟩ := conformsNN_inst hc
  simp [descend, hf, ha, below, descendFields_pre mm fs dd.props hfs]

/-- every directly nested instance is again a conforming instance (so the recursion below is not vacuous) -/
theorem children_conform (mm : MM) (i : Val) (h : Conforms mm i) : ∀ c ∈ children i, Conforms mm c := by
  obtain ⟨c, fs, rfl, hc⟩ := h
  obtain ⟨dd, _, _, hfs⟩ := conformsNN_inst hc
  exact fields_children_conform mm fs dd.props hfs

/-- The recursion equation of the property text: `descend` = for each directly nested instance, the
instance followed by its own `descend` (pre-order). -/
theorem descend_preorder (mm : MM) (i : Val) (h : Conforms mm i) :
    ∃ ds, descendOnce mm i = .ok ds ∧
      descend mm i = .ok (ds.flatMap (fun c => c :: descendL mm c)) := by
  refine ⟨children i, descendOnce_exact mm i h, ?_⟩
  rw [descend_all_preorder mm i h]
  have hch := children_conform mm i h
  obtain ⟨c, fs, rfl, _⟩ := h
  simp only [below, children] at hch ⊢
  rw [preAll_eq_directAll_flatMap]
  congr 1
  apply flatMap_congr'
  intro x hx
  simp [descendL, descend_all_preorder mm x (hch x hx)]

/-- the pass-through visitor (`visit_X`: `for another in that.descend_once(): self.visit(another)`) reaches
the instances in the order root, then `descend`: its visiting sequence satisfies the same recursion -/
theorem preorder_unfold (i : Val) (c : Name) (fs : Vals) (hi : i = .inst c fs) :
    pre i = i :: (children i).flatMap pre := by
  subst hi
  simp only [pre, children]
  congr 1
  rw [preAll_eq_directAll_flatMap]
  apply flatMap_congr'
  intro x hx
  obtain ⟨d, gs, rfl⟩ := directAll_are_insts fs x hx
  simp [pre, below]

/-! ## dispatch -/

/-- Visitors and transformers dispatch to the method of the instance's concrete class: whatever the
linearisation of the ancestors, the look-up stops at the class itself (every concrete class defines the
four methods), and the method called is the one named after that class. -/
theorem dispatch_concrete (mm : MM) (i : Val) (h : Conforms mm i) (k : Kind) (mro : List Name) :
    dispatch mm k i.classOf mro = some (methodName k i.classOf) := by
  obtain ⟨c, fs, rfl, hc⟩ := h
  obtain ⟨dd, hf, ha, _⟩ := conformsNN_inst hc
  simp [dispatch, Val.classOf, definesDispatch, hf, ha]

/-- the four names are distinct per class: no two kinds of dispatch end in the same method -/
theorem methodName_injective_kind (c : Name) (k k' : Kind) (h : methodName k c = methodName k' c) : k = k' := by
  cases k <;> cases k' <;> simp [methodName, Text.ofString] at h <;> first | rfl | skip
  all_goals
    first
    | (have := congrArg List.length h; simp at this; omega)
    | (exfalso; revert h; decide)

/-! ## accessors -/

/-- `None ↦ none`, anything else `↦ some` : the Python reading of an optional attribute -/
def asOption : Val → Option Val
  | .none => none
  | v => some v

def items : Val → List Val
  | .list vs => vs.toList
  | _ => []

/-- The accessors return the property value, or the empty iteration / the declared default when it is
`None`; `over_X_or_empty` exists exactly for `Optional[List[…]]` properties. -/
theorem accessor_spec (mm : MM) (t : Ty) (v d : Val) (h : conforms mm (.opt (.list t)) v = true) :
    overOrEmpty v = .ok (((asOption v).map items).getD []) ∧
    orDefault d v = (asOption v).getD d ∧
    hasOverOrEmpty (.opt (.list t)) = true := by
  refine ⟨?_, ?_, rfl⟩
  · cases v with
    | none => simp [overOrEmpty, asOption]
    | list vs => simp [overOrEmpty, asOption, items]
    | _ => simp [conforms, conformsNN] at h
  · cases v <;> simp [orDefault, asOption]

theorem orDefault_spec (d v : Val) : orDefault d v = (asOption v).getD d := by
  cases v <;> simp [orDefault, asOption]

theorem hasOverOrEmpty_iff (t : Ty) : hasOverOrEmpty t = true ↔ ∃ u, t = .opt (.list u) := by
  constructor
  · intro h
    cases t with
    | opt t => cases t with
      | list u => exact ⟨u, rfl⟩
      | _ => simp [hasOverOrEmpty] at h
    | _ => simp [hasOverOrEmpty] at h
  · rintro ⟨u, rfl⟩; rfl

/-! ## Constructors with declared defaults; completeness of the visitor / transformer classes
(`Model/SdkCtor.lean`, added after the seeded changes C29-5 / C29-6) -/

section Ctor
open AasVerif.SdkCtor

/-- The written assignment gives the property the argument, or the DECLARED default (an empty list / the
enumeration literal of THIS statement) when the argument is `None`. -/
theorem ctor_assign_spec (p a : Name) (d : Option DefaultCode) (v : Val) :
    execStmt (renderStmt (.assign p a d)) v = some (p, declared d v) := by
  cases d with
  | none => cases v <;> rfl
  | some c => cases c <;> cases v <;> rfl

/-- Every constructor statement is rendered on its own: statement `i` of the generated body is the rendering of
statement `i` of the meta-model, whatever stands before it (in particular an enumeration-literal default
before an empty-list default changes nothing). -/
theorem ctor_body_pointwise (ss : List Stmt) (i : Nat) :
    (renderBody ss)[i]? = (ss[i]?).map renderStmt := by
  induction ss generalizing i with
  | nil => simp [renderBody]
  | cons s ss ih =>
    cases i with
    | zero => simp [renderBody]
    | succ i => simpa [renderBody] using ih i

/-- the default written for a property is the one declared for it, after any statements -/
theorem ctor_default_after_any_prefix (pre post : List Stmt) (p a : Name) (d : Option DefaultCode) (v : Val) :
    ((renderBody (pre ++ .assign p a d :: post))[pre.length]?).bind (fun s => execStmt s v) = some (p, declared d v) := by
  rw [ctor_body_pointwise]
  simp [ctor_assign_spec]

example : renderBody [.assign [103] [103] (some (.enumLiteral [67] [66])), .assign [116] [116] (some .emptyList)]
    = [.setOrDefault [103] [103] (.enumLiteral [67] [66]), .setOrDefault [116] [116] .emptyList] := rfl

/-- The method an instance's `accept…` / `transform…` calls is DECLARED by each of the eight generated visitor /
transformer classes of that kind (they loop over all concrete classes of the symbol table). -/
theorem dispatch_target_declared (mm : MM) (d : Dispatcher) (c : Name) (mro : List Name) (n : Name)
    (h : dispatch mm d.kind c mro = some n) : n ∈ declaredMethods mm d := by
  unfold dispatch at h
  cases hf : (c :: mro).find? (definesDispatch mm) with
  | none => simp [hf] at h
  | some x =>
    simp only [hf, Option.map_some, Option.some.injEq] at h
    have hx : definesDispatch mm x = true := List.find?_some hf
    unfold definesDispatch at hx
    cases hc : mm.findClass x with
    | none => simp [hc] at hx
    | some cd =>
      simp only [hc] at hx
      have hmem : cd ∈ mm.classes := List.mem_of_find?_eq_some (by simpa [MM.findClass] using hc)
      have hname : cd.name = x := by
        have := List.find?_some (by simpa [MM.findClass] using hc : mm.classes.find? (fun d => d.name == x) = some cd)
        simpa using this
      subst h
      unfold declaredMethods concreteClasses
      refine List.mem_map.mpr ⟨cd, List.mem_filter.mpr ⟨hmem, by simpa using hx⟩, by rw [hname]⟩

/-- For every conforming instance and every generated visitor / transformer class: the class declares the
method of the instance's CONCRETE class. -/
theorem dispatchers_complete (mm : MM) (i : Val) (h : Conforms mm i) (d : Dispatcher) :
    methodName d.kind i.classOf ∈ declaredMethods mm d :=
  dispatch_target_declared mm d i.classOf [] _ (dispatch_concrete mm i h d.kind [])

end Ctor

/-! ## Tie to the source: the regenerated skeleton (`Gen/SdkDescend.lean`) -/

/-- The statement templates of `_DescendBodyUnroller` are the five statement forms of `SdkDescend.Node`
(`yieldIt`, `yieldFromDescend`, `yieldFromIt`, `forEach`, `ifNotNone`), emitted by the methods the model
attributes them to. -/
theorem templates_are :
    Gen.SdkDescend.emitted =
      [("_unroll_primitive_type_annotation", []),
       ("_unroll_our_type_annotation", ["yield {unrollee_expr}", "yield from {unrollee_expr}.descend()"]),
       ("_unroll_list_type_annotation", ["yield from {unrollee_expr}", "for {loop_var} in {unrollee_expr}:"]),
       ("_unroll_optional_type_annotation", ["if {unrollee_expr} is not None:"])] := by
  decide

/-- the names of the visitor/transformer methods and the calls of the four dispatch methods -/
theorem dispatchers_are :
    Gen.SdkDescend.identifiers =
      ["visit_{cls.name}", "visit_{cls.name}_with_context", "transform_{cls.name}", "transform_{cls.name}_with_context"] ∧
    Gen.SdkDescend.dispatchers =
      [("accept", "visitor.{visit_name}(self)"),
       ("accept_with_context", "visitor.{visit_with_context_name}(self, context)"),
       ("transform", "return transformer.{transform_name}(self)"),
       ("transform_with_context", "return transformer.{transform_with_context_name}(self, context)")] ∧
    Gen.SdkDescend.dispatchersOnlyForConcrete = true := by
  decide

/-- `_generate_constructor`: the three assignment templates (plain, ternary with `[]`, ternary with the code of the
enumeration literal) and the order of the `isinstance(stmt.default, …)` tests; the eight visitor / transformer
generators loop over `symbol_table.concrete_classes` -/
theorem ctor_templates_are :
    Gen.SdkDescend.ctorAssignments =
      ["self.{python_naming.property_name(stmt.name)} = {python_naming.argument_name(stmt.argument)}",
       "self.{python_naming.property_name(stmt.name)} = (|{arg_name}|if {arg_name} is not None|else []|)",
       "self.{python_naming.property_name(stmt.name)} = (|{arg_name}|if {arg_name} is not None|else {literal_code}|)"] ∧
    Gen.SdkDescend.ctorDefaultTests = ["EmptyList", "DefaultEnumLiteral"] ∧
    Gen.SdkDescend.dispatcherLoops =
      [("_generate_abstract_visitor", "symbol_table.concrete_classes"),
       ("_generate_abstract_visitor_with_context", "symbol_table.concrete_classes"),
       ("_generate_pass_through_visitor", "symbol_table.concrete_classes"),
       ("_generate_pass_through_visitor_with_context", "symbol_table.concrete_classes"),
       ("_generate_abstract_transformer", "symbol_table.concrete_classes"),
       ("_generate_abstract_transformer_with_context", "symbol_table.concrete_classes"),
       ("_generate_transformer_with_default", "symbol_table.concrete_classes"),
       ("_generate_transformer_with_default_and_context", "symbol_table.concrete_classes")] := by
  decide

theorem over_guard_is :
    Gen.SdkDescend.overOrEmptyGuard =
      "isinstance(prop.type_annotation, intermediate.OptionalTypeAnnotation) and isinstance(prop.type_annotation.value, intermediate.ListTypeAnnotation)" := by
  rfl

/-! ## Non-vacuity: a concrete conforming instance with nested lists, an abstract-typed property and an
optional -/

def exLeaf : ClassDecl := { name := [76], abstract := false, withModelType := true, props := [⟨[120], .prim .int⟩], concreteDescendants := [] }
def exShape : ClassDecl := { name := [83], abstract := true, withModelType := true, props := [], concreteDescendants := [[67]] }
def exCircle : ClassDecl := { name := [67], abstract := false, withModelType := true, props := [⟨[99], .opt (.cls [76])⟩], concreteDescendants := [] }
def exHolder : ClassDecl :=
  { name := [72], abstract := false, withModelType := true,
    props := [⟨[97], .list (.list (.cls [83]))⟩, ⟨[98], .opt (.list (.cls [76]))⟩, ⟨[110], .prim .str⟩], concreteDescendants := [] }
def exMM : MM := { classes := [exLeaf, exShape, exCircle, exHolder], enums := [] }
def leaf (n : Int) : Val := .inst [76] (.cons (.int n) .nil)
def circle (v : Val) : Val := .inst [67] (.cons v .nil)
def exInst : Val :=
  .inst [72] (.cons (.list (.cons (.list .nil) (.cons (.list (.cons (circle (leaf 1)) (.cons (circle .none) .nil))) .nil)))
    (.cons (.list (.cons (leaf 2) .nil)) (.cons (.str [104]) .nil)))

theorem exInst_conforms : Conforms exMM exInst :=
  ⟨[72], _, rfl, by
    simp [conformsNN, conforms, conformsFields, conformsAll, exInst, exMM, exLeaf, exShape, exCircle, exHolder,
      leaf, circle, MM.findClass]⟩
example : children exInst = [circle (leaf 1), circle .none, leaf 2] := rfl
example : below exInst = [circle (leaf 1), leaf 1, circle .none, leaf 2] := rfl
example : descendOnce exMM exInst = .ok [circle (leaf 1), circle .none, leaf 2] :=
  descendOnce_exact exMM exInst exInst_conforms
example : descend exMM exInst = .ok [circle (leaf 1), leaf 1, circle .none, leaf 2] :=
  descend_all_preorder exMM exInst exInst_conforms

end AasVerif.Props.C29
