import AasVerif.Lemmas.Base64
/-!
# C10 — Python SDK serialization round-trips and rejects bad documents
-/
namespace AasVerif.Props.C10
open AasVerif AasVerif.Sdk

/-- `base64.b64decode(base64.b64encode(bs))` gives back `bs`, for every byte string
(non-strict CPython decoder incl. its `str.encode('ascii')` step). -/
theorem base64_roundtrip (bs : List Nat) (h : ∀ x ∈ bs, x < 256) :
    Base64.decode (Base64.encode bs) = .ok bs :=
  Base64.decode_encode bs h

end AasVerif.Props.C10
