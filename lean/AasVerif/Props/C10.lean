import AasVerif.Lemmas.Base64
import AasVerif.Lemmas.SdkRound
import AasVerif.Lemmas.SdkTotal
import AasVerif.Lemmas.SdkTyped
import AasVerif.Lemmas.XmlText
import AasVerif.Lemmas.SdkXmlRound
import AasVerif.Lemmas.SdkXmlTotal
import AasVerif.Lemmas.SdkXmlTyped
/-!
# C10 — Python SDK serialization round-trips and rejects bad documents

Theorems about `Sdk.toJson` / `Sdk.fromJson` (`Model/SdkJson.lean`: the code emitted by
`python/lib/_generate_jsonization.py`, generic over the meta-model), for EVERY meta-model that
satisfies the decidable `MM.wf` (`Model/SdkWf.lean`: rules the project enforces itself) and every
conforming instance / every JSON value.

Full-strength round trip (FALSE of the faithful model, see `json_roundtrip_full_fails`):

    theorem json_roundtrip_full (mm : MM) (hwf : mm.wf = true) (c : Name) (fs : Vals)
        (hi : conformsNN mm (.cls c) (.inst c fs) = true) :
        fromJson mm c (toJson mm (.inst c fs)) = .ok (.inst c fs)

It fails for a class with concrete descendants that is not used as a property type and has
no `with_model_type` (known finding C10-F1); `MM.dispatchOkFor mm c` is exactly the negation of
that situation and is the extra hypothesis of the `_partial` theorems.
-/
namespace AasVerif.Props.C10
open AasVerif AasVerif.Sdk

/-- `base64.b64decode(base64.b64encode(bs))` gives back `bs`, for every byte string
(non-strict CPython decoder incl. its `str.encode('ascii')` step). -/
theorem base64_roundtrip (bs : List Nat) (h : ∀ x ∈ bs, x < 256) :
    Base64.decode (Base64.encode bs) = .ok bs :=
  Base64.decode_encode bs h

/-- An enumeration literal written as its value is found again by `stringification.<enum>_from_str`
(the dict literal in which the LAST entry of a value wins). -/
theorem enum_text_roundtrip (mm : MM) (hwf : mm.wf = true) (e l : Name) (ed : EnumDecl)
    (hfe : mm.findEnum e = some ed) (hl : ed.literals.any (fun p => p.1 == l) = true) :
    readEnum mm e (toJson mm (.enum e l)) = .ok (.enum e l) := by
  simp only [toJson, readEnum, hfe, enum_roundtrip hwf hfe hl]

/-- The witness of C10-F1: `Parent_thing` (concrete, one concrete descendant `Child_thing`, no
`with_model_type`, not used in any property). -/
def mmF1 : MM :=
  { classes := [
      { name := Text.ofString "Parent_thing", abstract := false, withModelType := false,
        props := [{ name := Text.ofString "some_int", ty := .prim .int }],
        concreteDescendants := [Text.ofString "Child_thing"] },
      { name := Text.ofString "Child_thing", abstract := false, withModelType := false,
        props := [{ name := Text.ofString "some_int", ty := .prim .int },
                  { name := Text.ofString "some_str", ty := .prim .str }],
        concreteDescendants := [] }],
    enums := [] }

def instF1 : Val := .inst (Text.ofString "Parent_thing") (.cons (.int 1) .nil)

/-- The full-strength round trip is false: a well-formed meta-model and a conforming instance
whose own document is rejected (`Expected the property modelType`). -/
theorem json_roundtrip_full_fails :
    ¬ (∀ (mm : MM), mm.wf = true → ∀ (c : Name) (fs : Vals),
        conformsNN mm (.cls c) (.inst c fs) = true →
        fromJson mm c (toJson mm (.inst c fs)) = .ok (.inst c fs)) := by
  intro h
  have h1 := h mmF1 (by decide) (Text.ofString "Parent_thing") (.cons (.int 1) .nil)
    (by simp [conformsNN, conformsFields, conforms, conformsAll, MM.findClass, MM.findEnum, mmF1, Text.ofString, bytesOk])
  have h2 : fromJson mmF1 (Text.ofString "Parent_thing")
      (toJson mmF1 (.inst (Text.ofString "Parent_thing") (.cons (.int 1) .nil))) = .err "no modelType" := by
    rfl
  rw [h2] at h1
  cases h1

/-- Round trip through ANY class `c` whose reader may be used for the instance (its own class or
an ancestor): the instance conforms to `c`, and `c` can be dispatched on (`dispatchOkFor`:
no concrete descendants, or `with_model_type` throughout — the excluded region is C10-F1). -/
theorem json_roundtrip_partial (mm : MM) (hwf : mm.wf = true) (c : Name) (i : Val)
    (hd : mm.dispatchOkFor c = true) (hi : conformsNN mm (.cls c) i = true) :
    fromJson mm c (toJson mm i) = .ok i :=
  rt_val mm hwf i (.cls c) (by simpa [MM.tyReadable] using hd) hi

/-- Own class: `<classOf i>_from_jsonable(to_jsonable(i)) == i`. -/
theorem json_roundtrip (mm : MM) (hwf : mm.wf = true) (i : Val) (hc : Conforms mm i)
    (hd : mm.dispatchOkFor i.classOf = true) :
    fromJson mm i.classOf (toJson mm i) = .ok i := by
  obtain ⟨c, fs, rfl, h⟩ := hc
  exact json_roundtrip_partial mm hwf c _ hd h

/-- Dispatch through an ancestor finds the concrete class: for `d` among the concrete descendants
of `c`, `c_from_jsonable(to_jsonable(i))` gives back the instance `i` of class `d`. -/
theorem json_roundtrip_via_parent (mm : MM) (hwf : mm.wf = true) (c d : Name) (fs : Vals)
    (cd : ClassDecl) (hc : mm.findClass c = some cd) (hdesc : d ∈ cd.concreteDescendants)
    (hi : conformsNN mm (.cls d) (.inst d fs) = true) (hd : mm.dispatchOkFor c = true) :
    fromJson mm c (toJson mm (.inst d fs)) = .ok (.inst d fs) := by
  apply json_roundtrip_partial mm hwf c _ hd
  -- conformance to the ancestor follows from conformance to the own class
  simp only [conformsNN, hc] at hi ⊢
  cases hfd : mm.findClass d with
  | none => simp [hfd] at hi
  | some dd =>
    simp only [hfd] at hi ⊢
    simp only [Bool.and_eq_true] at hi ⊢
    refine ⟨?_, hi.2⟩
    simp [hdesc]

/-- De-serialization never raises anything but the SDK's `DeserializationException`: for every
well-formed meta-model, every class of it and EVERY JSON value (any nesting, any types, any keys,
also repeated ones) `fromJson` does not end in `crash`. Depends on the regenerated
`Gen.SdkJson.bytesCatches` (the `except ValueError` around the base64 decoding). -/
theorem fromJson_total (mm : MM) (hwf : mm.wf = true) (c : Name) (cd : ClassDecl)
    (hc : mm.findClass c = some cd) (j : Json) (exc : String) :
    fromJson mm c j ≠ .crash exc :=
  readVal_total mm hwf j (.cls c) (by simp [tyKnown, hc]) exc

/-- A mistyped value is never accepted: whatever document is accepted, the instance built from it
conforms to the meta-model (an `int` property holds an `int`, never the `bool` Python would let
through `isinstance(x, int)`; bytes are bytes < 256; enumeration literals exist; classes are
concrete descendants of the declared class). Depends on the regenerated `Gen.SdkJson.*Accepts`. -/
theorem fromJson_welltyped (mm : MM) (hwf : mm.wf = true) (c : Name) (j : Json) (v : Val)
    (h : fromJson mm c j = .ok v) : conformsNN mm (.cls c) v = true :=
  readVal_welltyped mm hwf j (.cls c) v h

/-! ## XML character data -/

/-- A string of XML 1.0 `Char`s (carriage returns included) written by the regenerated
`_escape_and_write_text` chain is handed back unchanged by an XML 1.0 parser (end-of-line
normalisation, predefined entities, character references). -/
theorem xml_text_roundtrip (s : Text) (h : ∀ c ∈ s, XmlText.isChar c = true) :
    XmlText.content (XmlText.escape s) = some s :=
  XmlText.content_escape s 0 h

/-- Why the carriage-return step of the chain is needed: with the three classic replacements only
(the table before the repair) `"a\rb"` comes back as `"a\nb"`. -/
theorem xml_text_without_cr_step_loses_cr :
    XmlText.content (XmlText.escapeWith
      [(38, [38, 97, 109, 112, 59]), (60, [38, 108, 116, 59]), (62, [38, 103, 116, 59])] [97, 13, 98])
      = some [97, 10, 98] := by decide

example : (∀ c ∈ ([97, 13, 10, 38, 60, 62, 0x1F600] : Text), XmlText.isChar c = true) := by decide

/-! ## XML element trees (`Model/SdkXml.lean`; documents read by `iterparse` in one chunk) -/

/-- `<c>_from_str(to_str(i)) == i` on element trees, FULL strength (XML dispatches on the element
tag, so finding C10-F1 does not exist here): for every meta-model with `wfXml` (= `wf` +
`xml_class_name` injective on class names), every class `c` the instance conforms to (own class or
ancestor), every oracle that agrees with CPython on `int(str(i)) == i` and on `float(repr(x))`
for the floats of the instance. -/
theorem xml_roundtrip (mm : MM) (hwf : mm.wfXml = true) (ns : Text) (py : PyOracle)
    (hint : py.intOk) (c : Name) (i : Val) (hi : conformsNN mm (.cls c) i = true)
    (hf : floatsOk py i = true) :
    fromXml mm ns py c (toXml mm ns i) = .ok i :=
  rtx_top mm hwf ns py hint c i hi hf

/-- Reading ANY element tree (any tags, namespaces, texts, tails, attributes, nesting) through any
class of a well-formed meta-model, with any `int()`/`float()` oracle, never ends in an exception
other than `DeserializationException` (the not-well-formed case is the lexical layer: `ParseError`
is turned into `DeserializationException` by `_with_elements_cleared_after_yield`, checked by the
oracle). -/
theorem fromXml_total (mm : MM) (hwf : mm.wf = true) (ns : Text) (py : PyOracle) (c : Name)
    (cd : ClassDecl) (hc : mm.findClass c = some cd) (e : Elem) (exc : String) :
    fromXml mm ns py c e ≠ .crash exc :=
  xRead_total mm hwf ns py e (.asElement c) (by simp [modeKnown, hc]) exc

/-- No mistyped XML document is accepted: whatever tree `<c>_from_str` accepts yields an instance
that conforms to the meta-model (required properties present, every value of its declared kind,
classes concrete and among the descendants of the declared class). -/
theorem fromXml_welltyped (mm : MM) (hwf : mm.wf = true) (ns : Text) (py : PyOracle) (c : Name)
    (e : Elem) (v : Val) (h : fromXml mm ns py c e = .ok v) : conformsNN mm (.cls c) v = true :=
  xRead_welltyped mm hwf ns py e (.asElement c) v h

/-! Non-vacuity: a well-formed meta-model with a hierarchy, and an instance of a descendant that
meets the hypotheses of `json_roundtrip`, `json_roundtrip_via_parent`. -/

def mmEx : MM :=
  { classes := [
      { name := Text.ofString "Shape", abstract := true, withModelType := true,
        props := [{ name := Text.ofString "label", ty := .prim .str }],
        concreteDescendants := [Text.ofString "Circle"] },
      { name := Text.ofString "Circle", abstract := false, withModelType := true,
        props := [{ name := Text.ofString "label", ty := .prim .str },
                  { name := Text.ofString "data", ty := .opt (.prim .bytes) },
                  { name := Text.ofString "colors", ty := .list (.enum (Text.ofString "Color")) }],
        concreteDescendants := [] },
      { name := Text.ofString "Drawing", abstract := false, withModelType := false,
        props := [{ name := Text.ofString "main", ty := .cls (Text.ofString "Shape") }],
        concreteDescendants := [] }],
    enums := [{ name := Text.ofString "Color", literals := [(Text.ofString "Red", Text.ofString "RED")] }] }

def circleEx : Val :=
  .inst (Text.ofString "Circle")
    (.cons (.str (Text.ofString "c")) (.cons (.bytes [0, 255]) (.cons (.list (.cons (.enum (Text.ofString "Color") (Text.ofString "Red")) .nil)) .nil)))

example : mmEx.wf = true := by decide
example : mmEx.dispatchOkFor (Text.ofString "Shape") = true := by decide
example : conformsNN mmEx (.cls (Text.ofString "Shape")) circleEx = true := by
  simp [conformsNN, conformsFields, conforms, conformsAll, MM.findClass, MM.findEnum, mmEx, circleEx, Text.ofString, bytesOk]
example : Conforms mmEx circleEx :=
  ⟨_, _, rfl, by simp [conformsNN, conformsFields, conforms, conformsAll, MM.findClass, MM.findEnum, mmEx, circleEx, Text.ofString, bytesOk]⟩
example : conformsNN mmEx (.cls (Text.ofString "Drawing"))
    (.inst (Text.ofString "Drawing") (.cons circleEx .nil)) = true := by
  simp [conformsNN, conformsFields, conforms, conformsAll, MM.findClass, MM.findEnum, mmEx, circleEx, Text.ofString, bytesOk]
example : mmEx.wfXml = true := by decide
example (py : PyOracle) : floatsOk py circleEx = true := by
  simp [floatsOk, floatsOkL, circleEx]
example : mmF1.wf = true := by decide
example : mmF1.dispatchOkFor (Text.ofString "Parent_thing") = false := by decide

/-! Non-vacuity on the value-shape matrix of the harness (`harness/c10_shapes.py`): the four wrappings
the project admits — `A`, `Optional[A]`, `List[A]`, `Optional[List[A]]` — of a byte array, and the
same positions nested in a class held in a list.  A constrained primitive (`class C_bytes(bytearray)`,
also a chain `CC_bytes(C_bytes)`) reaches the model erased to its constrainee (`Model/SdkData.lean`),
so `Holder_c_bytes` below is what `harness/props/c10.py` sends for `req: C_bytes`, `items: List[C_bytes]`, …
The instance has none / one / several items, the empty byte string and the bytes 0 and 255. -/

def mmShapes : MM :=
  { classes := [
      { name := Text.ofString "Holder_c_bytes", abstract := false, withModelType := false,
        props := [{ name := Text.ofString "req", ty := .prim .bytes },
                  { name := Text.ofString "opt", ty := .opt (.prim .bytes) },
                  { name := Text.ofString "items", ty := .list (.prim .bytes) },
                  { name := Text.ofString "opt_items", ty := .opt (.list (.prim .bytes)) }],
        concreteDescendants := [] },
      { name := Text.ofString "Nest", abstract := false, withModelType := false,
        props := [{ name := Text.ofString "held_c_bytes", ty := .opt (.list (.cls (Text.ofString "Holder_c_bytes"))) }],
        concreteDescendants := [] }],
    enums := [] }

def holderShapesEx : Val :=
  .inst (Text.ofString "Holder_c_bytes")
    (.cons (.bytes [1, 2, 3]) (.cons .none
      (.cons (.list (.cons (.bytes [1, 2, 3]) (.cons (.bytes [255, 254]) (.cons (.bytes [0]) (.cons (.bytes []) .nil)))))
        (.cons (.list (.cons (.bytes [0, 255]) .nil)) .nil))))

def holderEmptyShapesEx : Val :=
  .inst (Text.ofString "Holder_c_bytes")
    (.cons (.bytes []) (.cons (.bytes []) (.cons (.list .nil) (.cons (.list .nil) .nil))))

def nestShapesEx : Val :=
  .inst (Text.ofString "Nest") (.cons (.list (.cons holderShapesEx (.cons holderEmptyShapesEx .nil))) .nil)

example : mmShapes.wfXml = true := by decide
example : mmShapes.dispatchOkFor (Text.ofString "Nest") = true := by decide

example : conformsNN mmShapes (.cls (Text.ofString "Nest")) nestShapesEx = true := by
  simp [conformsNN, conformsFields, conforms, conformsAll, MM.findClass, mmShapes, nestShapesEx,
    holderShapesEx, holderEmptyShapesEx, Text.ofString, bytesOk]

/-- What `to_jsonable` writes for a `List[C]`, `C` a constrained primitive over `bytearray`: base64
texts item by item, never the raw bytes (the independently seeded change C10-6 made the generated
`transform_…` pass the items "as they are"). -/
example : toJson mmShapes holderShapesEx =
    .obj (.cons (Text.ofString "req") (.str (Text.ofString "AQID"))
      (.cons (Text.ofString "items")
        (.arr (.cons (.str (Text.ofString "AQID")) (.cons (.str (Text.ofString "//4=")) (.cons (.str (Text.ofString "AA=="))
          (.cons (.str []) .nil)))))
      (.cons (Text.ofString "optItems") (.arr (.cons (.str (Text.ofString "AP8=")) .nil)) .nil))) := by
  rfl

/-- the round-trip theorems apply to it (JSON and XML) -/
example : fromJson mmShapes (Text.ofString "Nest") (toJson mmShapes nestShapesEx) = .ok nestShapesEx :=
  json_roundtrip_partial mmShapes (by decide) _ _ (by decide)
    (by simp [conformsNN, conformsFields, conforms, conformsAll, MM.findClass, mmShapes, nestShapesEx,
      holderShapesEx, holderEmptyShapesEx, Text.ofString, bytesOk])
example (ns : Text) (py : PyOracle) (hint : py.intOk) :
    fromXml mmShapes ns py (Text.ofString "Nest") (toXml mmShapes ns nestShapesEx) = .ok nestShapesEx :=
  xml_roundtrip mmShapes (by decide) ns py hint _ _ (by simp [conformsNN, conformsFields, conforms, conformsAll, MM.findClass, mmShapes, nestShapesEx,
      holderShapesEx, holderEmptyShapesEx, Text.ofString, bytesOk])
    (by simp [floatsOk, floatsOkL, nestShapesEx, holderShapesEx, holderEmptyShapesEx])

end AasVerif.Props.C10
