import AasVerif.Lemmas.SnippetsRead
import AasVerif.Lemmas.SnippetsUtf8
import AasVerif.Lemmas.SnippetsGlob
import AasVerif.Gen.Snippets
/-!
# C25 — Snippet directory is loaded exactly (and `readDir_perm_invariant` of C22)

Theorems about `Snippets.read` (model of `specific_implementations.read_from_directory` after the
`fix:` commits 326f2f7b, e1eb5dd7, 5cd1dfd4), for every list of directory entries.
`WF es` = what a real directory listing guarantees: unique paths, components non-empty and without `/`.
-/
namespace AasVerif.Props.C25
open AasVerif AasVerif.Snippets

/-! ## the tie to the source text -/

/-- The pattern text in the source is exactly the one `validKey` implements (no flags). -/
theorem keyPattern_pinned :
    Gen.Snippets.keyPattern = Text.ofString "[a-zA-Z_][a-zA-Z_0-9.]*(/[a-zA-Z_][a-zA-Z_0-9.]*)*"
    ∧ Gen.Snippets.keyCompileExtraArgs = 0 := by decide

/-- The skeleton of `read_from_directory` the model was written for: `sorted(dir.glob("**/*"))`,
`any(part.startswith(".") for part in ….parts)`, `read_text(encoding="utf-8").strip()`. -/
theorem source_shape_pinned :
    Gen.Snippets.globPattern = Text.ofString "**/*" ∧ Gen.Snippets.sortedGlob = true
    ∧ Gen.Snippets.hiddenPrefix = Text.ofString "." ∧ Gen.Snippets.hiddenOverAllParts = true
    ∧ Gen.Snippets.encoding = Text.ofString "utf-8"
    ∧ Gen.Snippets.stripMethod = Text.ofString "strip" ∧ Gen.Snippets.stripArgs = 0 := by decide

/-! ## never an exception -/

/-- Neither precondition (`ImplementationKey`, `Stripped`) can fire: the result is a mapping or errors. -/
theorem read_never_crashes (es : List Entry) (site : String) : read es ≠ .crash site := by
  rw [read_eq]; split <;> simp

/-- The result is the error list iff it is non-empty, else the mapping (the `@ensure` XOR). -/
theorem read_ok_or_err (es : List Entry) : (∃ m, read es = .ok m) ∨ (∃ errs, errs ≠ [] ∧ read es = .err errs) := by
  rw [read_eq]
  by_cases h : (errorsOf es).isEmpty
  · left; exact ⟨_, by rw [if_pos h]⟩
  · right; exact ⟨errorsOf es, by simpa using h, by rw [if_neg h]⟩

/-! ## exact loading -/

/-
Full-strength statement as the property reads ("leading and trailing whitespace stripped from its
content"):  `read es = ok m → … (posix e.rel, strip t) ∈ m` with `utf8Decode e.bytes = some t`.
It is false of the code: `read_text` opens in text mode and translates `\r\n` / `\r` to `\n`
(known finding C25-F1) — `read_exact_full_fails`. `read_exact` is the exact characterisation
(with `universalNewlines`), `read_exact_partial` the property's wording for contents without `\r`.
-/

theorem read_exact_full_fails :
    ∃ (e : Entry) (t v : Text), read [e] = .ok [(posix e.rel, v)] ∧ utf8Decode e.bytes = some t ∧ v ≠ strip t := by
  refine ⟨⟨[[97]], .file, [97, 13, 98]⟩, [97, 13, 98], [97, 10, 98], ?_, by decide, by decide⟩
  unfold Snippets.read sortEntries
  rw [List.mergeSort_singleton]
  decide

/-- Every pair of the mapping is the key and the stripped text-mode content of a non-hidden regular
file of the listing, and keys are unique. -/
theorem read_exact_sound (es : List Entry) (m : List (Text × Text)) (h : read es = .ok m) :
    (∀ p ∈ m, ∃ e ∈ es, ∃ t, Good e t ∧ p.1 = posix e.rel ∧ p.2 = strip (universalNewlines t))
    ∧ (m.map Prod.fst).Nodup := by
  rw [read_eq] at h
  split at h
  · cases h
    refine ⟨?_, ?_⟩
    · intro p hp
      rcases mem_foldl_applyStep _ [] p hp with h' | h'
      · simp at h'
      · obtain ⟨e, he, hs⟩ := List.mem_map.mp h'
        obtain ⟨t, hg, hk, hv⟩ := (step_put_iff e p.1 p.2).mp hs
        exact ⟨e, mem_sortEntries.mp he, t, hg, hk, hv⟩
    · exact foldl_applyStep_keys_nodup _ [] (by simp)
  · cases h

/-- Every non-hidden readable regular file (valid key, UTF-8) of a real listing is in the mapping
under its relative POSIX path, and the mapping lists the files in sorted path order. -/
theorem read_exact_complete (es : List Entry) (wf : WF es) (m : List (Text × Text)) (h : read es = .ok m) :
    (∀ e ∈ es, ∀ t, Good e t → (posix e.rel, strip (universalNewlines t)) ∈ m)
    ∧ m = putsOf (sortEntries es) := by
  rw [read_eq] at h
  split at h
  · cases h
    have hm := mappingOf_eq_putsOf es wf
    refine ⟨?_, hm⟩
    intro e he t hg
    rw [hm, mem_putsOf]
    exact ⟨e, mem_sortEntries.mpr he, (step_put_iff e _ _).mpr ⟨t, hg, rfl, rfl⟩⟩
  · cases h

/-- `read_exact`: on a real listing the mapping is exactly
`{posix e.rel ↦ strip (text-mode content of e) | e a non-hidden regular file}`. -/
theorem read_exact (es : List Entry) (wf : WF es) (m : List (Text × Text)) (h : read es = .ok m) (k v : Text) :
    (k, v) ∈ m ↔ ∃ e ∈ es, ∃ t, Good e t ∧ k = posix e.rel ∧ v = strip (universalNewlines t) := by
  constructor
  · intro hp
    exact (read_exact_sound es m h).1 (k, v) hp
  · rintro ⟨e, he, t, hg, rfl, rfl⟩
    exact (read_exact_complete es wf m h).1 e he t hg

/-- The property's own wording holds for contents without a carriage return. -/
theorem read_exact_partial (es : List Entry) (wf : WF es) (m : List (Text × Text)) (h : read es = .ok m)
    (e : Entry) (he : e ∈ es) (t : Text) (hg : Good e t) (hcr : 13 ∉ t) :
    (posix e.rel, strip t) ∈ m := by
  have := (read_exact_complete es wf m h).1 e he t hg
  rwa [universalNewlines_of_no_cr t hcr] at this

/-- No entry of a successful load is offending, none is missed: everything that is neither loaded nor
ignored makes the load fail. -/
theorem read_ok_no_offender (es : List Entry) (m : List (Text × Text)) (h : read es = .ok m) :
    ∀ e ∈ es, ¬ Offending e := by
  intro e he ho
  obtain ⟨x, hx⟩ := (step_error_iff e).mpr ho
  rw [read_eq] at h
  split at h
  · next hempty =>
    have : x ∈ errorsOf es := (mem_errorsOf es x).mpr ⟨e, he, hx⟩
    simp only [List.isEmpty_iff] at hempty
    rw [hempty] at this; cases this
  · cases h

/-! ## hidden entries -/

/-- A hidden entry — a dot-file, a dot-directory, or anything beneath a dot-directory — does not
influence the result, wherever the file system lists it. -/
theorem hidden_ignored (es es' : List Entry) (e : Entry) (hp : es.Perm (e :: es')) (wf : RelFunctional es)
    (hh : hidden e.rel = true) : read es = read es' := by
  have h1 : read es = read (e :: es') := by unfold Snippets.read; rw [sortEntries_eq_of_perm hp wf]
  rw [h1]
  obtain ⟨l₁, l₂, hs, hs'⟩ := sortEntries_cons e es'
  have hskip : step e = .skip := (step_skip_iff e).mpr (Or.inl hh)
  unfold Snippets.read
  rw [hs, hs', loop_skip_middle e hskip]

/-- Directories themselves never contribute (only the files in them do). -/
theorem dir_ignored (es es' : List Entry) (e : Entry) (hp : es.Perm (e :: es')) (wf : RelFunctional es)
    (hd : e.kind = .dir) : read es = read es' := by
  have h1 : read es = read (e :: es') := by unfold Snippets.read; rw [sortEntries_eq_of_perm hp wf]
  rw [h1]
  obtain ⟨l₁, l₂, hs, hs'⟩ := sortEntries_cons e es'
  have hskip : step e = .skip := (step_skip_iff e).mpr (Or.inr hd)
  unfold Snippets.read
  rw [hs, hs', loop_skip_middle e hskip]

/-! ## errors -/

/-- The load fails iff some non-hidden non-directory entry is not a regular file, has an invalid
key, cannot be read or is not UTF-8. -/
theorem bad_key_or_utf8_is_error (es : List Entry) :
    (∃ e ∈ es, Offending e) ↔ ∃ msgs, read es = .err msgs := by
  constructor
  · rintro ⟨e, he, ho⟩
    obtain ⟨x, hx⟩ := (step_error_iff e).mpr ho
    have hmem : x ∈ errorsOf es := (mem_errorsOf es x).mpr ⟨e, he, hx⟩
    refine ⟨errorsOf es, ?_⟩
    rw [read_eq, if_neg]
    intro hempty
    simp only [List.isEmpty_iff] at hempty
    rw [hempty] at hmem; cases hmem
  · rintro ⟨msgs, h⟩
    rw [read_eq] at h
    split at h
    · cases h
    · next hne =>
      cases hm : errorsOf es with
      | nil => simp [hm] at hne
      | cons x xs =>
        obtain ⟨e, he, hs⟩ := (mem_errorsOf es x).mp (by rw [hm]; simp)
        exact ⟨e, he, (step_error_iff e).mp ⟨x, hs⟩⟩

/-- Every offending file is named by an error, and every error names an offending file. -/
theorem errors_name_the_files (es : List Entry) (msgs : List Err) (h : read es = .err msgs) :
    (∀ e ∈ es, Offending e → ∃ x ∈ msgs, x.rel = e.rel)
    ∧ (∀ x ∈ msgs, ∃ e ∈ es, Offending e ∧ x.rel = e.rel) := by
  rw [read_eq] at h
  split at h
  · cases h
  · cases h
    constructor
    · intro e he ho
      obtain ⟨x, hx⟩ := (step_error_iff e).mpr ho
      exact ⟨x, (mem_errorsOf es x).mpr ⟨e, he, hx⟩, step_error_rel e x hx⟩
    · intro x hx
      obtain ⟨e, he, hs⟩ := (mem_errorsOf es x).mp hx
      exact ⟨e, he, (step_error_iff e).mp ⟨x, hs⟩, step_error_rel e x hs⟩

/-! ## C22: independence of the listing order -/

/-- `readDir_perm_invariant`: in whatever order the file system lists the paths, the result is the
same — the same mapping in the same order, or the same errors in the same order. -/
theorem readDir_perm_invariant (es es' : List Entry) (hp : es.Perm es') (wf : RelFunctional es) :
    read es = read es' := by
  unfold Snippets.read; rw [sortEntries_eq_of_perm hp wf]

/-- The order of the errors is the sorted order of the paths they name. -/
theorem errors_sorted (es : List Entry) (msgs : List Err) (h : read es = .err msgs) :
    msgs = ((sortEntries es).map step).filterMap errOf := by
  rw [read_eq] at h
  split at h
  · cases h
  · cases h; rfl

/-! ## `str.strip()` and strict UTF-8 -/

/-- `strip` removes exactly a maximal run of whitespace on each side. -/
theorem strip_spec (t : Text) :
    ∃ l r, t = l ++ strip t ++ r ∧ l.all isSpace = true ∧ r.all isSpace = true
      ∧ (∀ c, (strip t).head? = some c → isSpace c = false)
      ∧ (∀ c, (strip t).getLast? = some c → isSpace c = false) := by
  refine ⟨t.takeWhile isSpace, ((t.dropWhile isSpace).reverse.takeWhile isSpace).reverse,
    strip_decompose t, all_takeWhile _ _, ?_, strip_head_not_space t, strip_getLast_not_space t⟩
  rw [List.all_reverse]; exact all_takeWhile _ _

/-- The decoder is the exact inverse of the UTF-8 encoder on texts of Unicode scalar values: it
accepts exactly the encodings (hence no overlong forms, no surrogates, nothing above U+10FFFF, no
truncated or stray continuation bytes, no "bytes" ≥ 256). -/
theorem utf8_decode_spec (bs : List Nat) (t : Text) :
    utf8Decode bs = some t ↔ (utf8Encode t = bs ∧ ∀ c ∈ t, isScalar c = true) := by
  constructor
  · exact utf8Encode_of_decode bs.length bs t (Nat.le_refl _)
  · rintro ⟨rfl, hs⟩
    exact utf8Decode_encode t hs

theorem utf8_rejects :
    utf8Decode [0xC0, 0x80] = none ∧ utf8Decode [0xE0, 0x80, 0x80] = none        -- overlong
    ∧ utf8Decode [0xED, 0xA0, 0x80] = none ∧ utf8Decode [0xED, 0xBF, 0xBF] = none  -- surrogates
    ∧ utf8Decode [0xF4, 0x90, 0x80, 0x80] = none ∧ utf8Decode [0xF5, 0x80, 0x80, 0x80] = none  -- > U+10FFFF
    ∧ utf8Decode [0xE2, 0x82] = none ∧ utf8Decode [0x80] = none ∧ utf8Decode [256] = none := by decide

/-! ## directory trees: `readTree root = read (glob root)` -/

/-- `glob("**/*")` hands every node of the tree to the loop exactly once (in whatever order). -/
theorem glob_complete (root : List Node) : (glob root).Perm (allList [] root) := glob_perm_all root

theorem WF_of_perm {es es' : List Entry} (hp : es.Perm es') (wf : WF es) : WF es' :=
  ⟨(hp.map _).nodup_iff.mp wf.1, fun e he => wf.2 e (hp.mem_iff.mpr he)⟩

/-- `read_exact` for a directory tree whose paths are unique and whose names are sane: the mapping
is exactly the non-hidden regular files anywhere in the tree. -/
theorem readTree_exact (root : List Node) (wf : WF (allList [] root)) (m : List (Text × Text))
    (h : readTree root = .ok m) (k v : Text) :
    (k, v) ∈ m ↔ ∃ e ∈ allList [] root, ∃ t, Good e t ∧ k = posix e.rel ∧ v = strip (universalNewlines t) := by
  have hp := glob_complete root
  rw [read_exact (glob root) (WF_of_perm hp.symm wf) m h k v]
  constructor
  · rintro ⟨e, he, r⟩; exact ⟨e, hp.mem_iff.mp he, r⟩
  · rintro ⟨e, he, r⟩; exact ⟨e, hp.mem_iff.mpr he, r⟩

/-- The run fails iff an offending file exists anywhere in the tree (outside hidden directories). -/
theorem readTree_error_iff (root : List Node) :
    (∃ e ∈ allList [] root, Offending e) ↔ ∃ msgs, readTree root = .err msgs := by
  have hp := glob_complete root
  unfold readTree
  rw [← bad_key_or_utf8_is_error]
  constructor
  · rintro ⟨e, he, r⟩; exact ⟨e, hp.mem_iff.mpr he, r⟩
  · rintro ⟨e, he, r⟩; exact ⟨e, hp.mem_iff.mp he, r⟩

theorem readTree_never_crashes (root : List Node) (site : String) : readTree root ≠ .crash site :=
  read_never_crashes _ site

/-- C22 at the level of trees: two trees with the same nodes — the same directory listed in any
other order, at every level — give the same mapping in the same order or the same errors in the
same order. -/
theorem readTree_listing_order_invariant (root root' : List Node)
    (hp : (allList [] root).Perm (allList [] root')) (wf : WF (allList [] root)) :
    readTree root = readTree root' := by
  unfold readTree
  apply readDir_perm_invariant
  · exact (glob_complete root).trans (hp.trans (glob_complete root').symm)
  · exact (WF_of_perm (glob_complete root).symm wf).relFunctional

/-! ## the key matcher -/

/-- The hand-written matcher accepts exactly the language of the pinned pattern
`[a-zA-Z_][a-zA-Z_0-9.]*(/[a-zA-Z_][a-zA-Z_0-9.]*)*`: one or more segments joined by `/`, each a
letter or `_` followed by letters, digits, `_` or `.`. -/
theorem validKey_spec (k : Text) :
    validKey k = true ↔ ∃ segs, segs ≠ [] ∧ posix segs = k ∧
      ∀ s ∈ segs, ∃ c cs, s = c :: cs ∧ isHead c = true ∧ ∀ d ∈ cs, isTail d = true := by
  rw [validKey_iff]
  constructor
  · rintro ⟨segs, hne, hk, hv⟩
    refine ⟨segs, hne, hk, ?_⟩
    intro s hs
    have := hv s hs
    cases s with
    | nil => simp [validSegment] at this
    | cons c cs =>
      simp only [validSegment, Bool.and_eq_true, List.all_eq_true] at this
      exact ⟨c, cs, rfl, this.1, this.2⟩
  · rintro ⟨segs, hne, hk, hv⟩
    refine ⟨segs, hne, hk, ?_⟩
    intro s hs
    obtain ⟨c, cs, rfl, hc, hcs⟩ := hv s hs
    simp only [validSegment, Bool.and_eq_true, List.all_eq_true]
    exact ⟨hc, hcs⟩

theorem validKey_examples :
    validKey (Text.ofString "Verification/is_xs_date.py") = true ∧ validKey (Text.ofString "_") = true
    ∧ validKey (Text.ofString "a//b") = false ∧ validKey (Text.ofString "9a") = false
    ∧ validKey (Text.ofString "a/") = false ∧ validKey (Text.ofString "") = false
    ∧ validKey (Text.ofString "a\nb") = false ∧ validKey (Text.ofString ".git/config") = false
    ∧ validKey (Text.ofString "a b") = false ∧ validKey [97, 10] = false := by decide

/-! ## non-vacuity -/

example : WF [⟨[[97]], .file, [32, 120, 10]⟩, ⟨[[100], [98]], .file, []⟩, ⟨[[46, 103], [99]], .file, [255]⟩] := by
  unfold WF NamesOk; decide

example : Good ⟨[[100], [98, 46, 112, 121]], .file, [0xC3, 0xA4, 10]⟩ [0xE4, 10] := by
  unfold Good; decide

example : Offending ⟨[[100], [57]], .file, []⟩ := by unfold Offending; decide

example : WF (allList [] [.dir [100] [.leaf [98] .file [120], .dir [46, 104] [.leaf [99] .other []]], .leaf [97] .file []]) := by
  unfold WF NamesOk; decide

example : (allList [] [.dir [100] [.leaf [98] .file [120], .leaf [99] .file []], .leaf [97] .file []]).Perm
    (allList [] [.leaf [97] .file [], .dir [100] [.leaf [99] .file [], .leaf [98] .file [120]]]) := by decide

example : RelFunctional [⟨[[97]], .file, []⟩, ⟨[[98]], .other, []⟩] := by
  unfold RelFunctional; decide

end AasVerif.Props.C25
