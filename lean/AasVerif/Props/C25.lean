import AasVerif.Model.Snippets
import AasVerif.Gen.Snippets
namespace AasVerif.Props.C25
open AasVerif AasVerif.Snippets

/-- The pattern text in the source is exactly the one `validKey` implements. -/
theorem keyPattern_pinned :
    Gen.Snippets.keyPattern = Text.ofString "[a-zA-Z_][a-zA-Z_0-9.]*(/[a-zA-Z_][a-zA-Z_0-9.]*)*"
    ∧ Gen.Snippets.keyCompileExtraArgs = 0 := by decide

end AasVerif.Props.C25
