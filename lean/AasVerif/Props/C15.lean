import AasVerif.Lemmas.LenMerge
import AasVerif.Lemmas.Infer
import AasVerif.Lemmas.InferSem
/-!
# C15 — Schema constraint inference equals the invariant conjunction
(and the `Len` no-crash theorems that C02 reuses)

All statements are about the executable models `Len.ofComparison`, `Len.reduce`, `Len.merge`
(`Model/Len.lean`, parametrised by the tables regenerated from the source into `Gen/Len.lean`) and
`Infer.intersect`, `Infer.mergeSet`, `Infer.mergePats` (`Model/Infer.lean`), which are compared with
the real functions on every run.  Lengths are natural numbers, constants are Python integers.
-/
namespace AasVerif.Props.C15
open AasVerif AasVerif.Len AasVerif.Infer

/-! ## The operator table of `_match_len_constraint_on_member_or_name` -/

/-- For every operator, operand order, constant and length: the recognised bound holds exactly when the
Python comparison is true; only `!=` is ignored; the `assert_never` is not reachable. -/
theorem ofComparison_spec (op : Op) (lenOnLeft : Bool) (c : Int) :
    match ofComparison op lenOnLeft c with
    | .ok (some b) => ∀ n : Nat, b.holds n ↔ pyCompare op lenOnLeft n c
    | .ok none => op = .ne
    | .err _ => False
    | .crash _ => False := by
  cases op <;> cases lenOnLeft <;>
    simp [ofComparison, ofComparisonIn, lookup, Gen.Len.lenOnLeft, Gen.Len.constOnLeft, Bound.mk',
      Bound.holds, pyCompare] <;> omega

/-- `ofComparison … = none` (the invariant is ignored) exactly for the unsupported operator `!=`. -/
theorem ofComparison_none_iff (op : Op) (lenOnLeft : Bool) (c : Int) :
    ofComparison op lenOnLeft c = .ok none ↔ op = .ne := by
  cases op <;> cases lenOnLeft <;>
    simp [ofComparison, ofComparisonIn, lookup, Gen.Len.lenOnLeft, Gen.Len.constOnLeft]

/-! ## `_reduce_constraints` -/

/-- The reduced range admits a length exactly when all the loose bounds hold for it. -/
theorem reduce_exact (bs : List Bound) (c : LenC) (h : reduce bs = .ok c) (n : Nat) :
    c.admits n ↔ ∀ b ∈ bs, b.holds n := by
  rcases reduce_cases bs with ⟨m, hm, _⟩ | ⟨c', hc, hiff, _, _⟩
  · rw [hm] at h; cases h
  · rw [hc] at h; cases h; exact hiff n

/-- Errors are reported exactly for the unsatisfiable lists of bounds (over natural lengths). -/
theorem reduce_err_iff_unsat (bs : List Bound) :
    (∃ m, reduce bs = .err m) ↔ ¬ ∃ n : Nat, ∀ b ∈ bs, b.holds n := by
  rcases reduce_cases bs with ⟨m, hm, hun⟩ | ⟨c, hc, _, hsat, _⟩
  · exact ⟨fun _ => hun, fun _ => ⟨m, hm⟩⟩
  · constructor
    · rintro ⟨m, hm⟩; rw [hc] at hm; cases hm
    · intro h; exact absurd hsat h

/-- C02: `_reduce_constraints` never violates the pre-condition of `LenConstraint` (nor any other
crash site), for every list of bounds. -/
theorem reduce_no_crash (bs : List Bound) (site : String) : reduce bs ≠ .crash site := by
  rcases reduce_cases bs with ⟨m, hm, _⟩ | ⟨c, hc, _⟩
  · rw [hm]; intro h; cases h
  · rw [hc]; intro h; cases h

/-- What `reduce` returns satisfies the invariant `WF` (no negative bound, ordered). -/
theorem reduce_wf (bs : List Bound) (c : LenC) (h : reduce bs = .ok c) : c.WF := by
  rcases reduce_cases bs with ⟨m, hm, _⟩ | ⟨c', hc, _, _, hwf⟩
  · rw [hm] at h; cases h
  · rw [hc] at h; cases h; exact hwf

/-! ## `_merge_len_constraints` -/

/-- The merged range is the conjunction of both ranges (whenever a range is returned). -/
theorem merge_is_conj (a b c : Option LenC) (h : merge a b = .ok c) (n : Nat) :
    admitsOpt c n ↔ admitsOpt a n ∧ admitsOpt b n :=
  merge_ok_conj a b c h n

/-- On well-formed arguments an error is reported exactly when no length satisfies both ranges. -/
theorem merge_err_iff_unsat (a b : Option LenC) (ha : wfOpt a) (hb : wfOpt b) :
    (∃ m, merge a b = .err m) ↔ ¬ ∃ n : Nat, admitsOpt a n ∧ admitsOpt b n := by
  rcases merge_cases a b ha hb with ⟨m, hm, hun⟩ | ⟨c, hc, _, hsat⟩
  · exact ⟨fun _ => hun, fun _ => ⟨m, hm⟩⟩
  · constructor
    · rintro ⟨m, hm⟩; rw [hc] at hm; cases hm
    · intro h; exact absurd hsat h

/-- C02: merging well-formed ranges (those that `reduce` and `merge` themselves produce) never violates
the pre-condition of `LenConstraint`. -/
theorem merge_no_crash (a b : Option LenC) (ha : wfOpt a) (hb : wfOpt b) (site : String) :
    merge a b ≠ .crash site := by
  rcases merge_cases a b ha hb with ⟨m, hm, _⟩ | ⟨c, hc, _⟩
  · rw [hm]; intro h; cases h
  · rw [hc]; intro h; cases h

/-- `WF` is preserved by merging, so it holds for every range along an inheritance chain. -/
theorem merge_wf (a b c : Option LenC) (ha : wfOpt a) (hb : wfOpt b) (h : merge a b = .ok c) : wfOpt c := by
  rcases merge_cases a b ha hb with ⟨m, hm, _⟩ | ⟨c', hc, hwf, _⟩
  · rw [hm] at h; cases h
  · rw [hc] at h; cases h; exact hwf

/-- Non-vacuity of the hypotheses: a parent `≤ 3` and a child `≥ 5` are both well-formed, and their merge
is the reported contradiction (it used to be an icontract violation). -/
example : wfOpt (some ⟨none, some 3⟩) ∧ wfOpt (some ⟨some 5, none⟩) ∧
    merge (some ⟨none, some 3⟩) (some ⟨some 5, none⟩) = .err [Msg.minMax 5 3] := by
  refine ⟨?_, ?_, rfl⟩ <;> simp [wfOpt, LenC.WF]

/-- Without well-formedness the pre-condition is reachable: the hypothesis of `merge_no_crash` is needed. -/
theorem merge_no_crash_needs_wf :
    merge (some ⟨some (-2), none⟩) (some ⟨none, some 5⟩) = .crash "LenConstraint.__init__:require" := by
  rfl

/-! Concrete instances of the defects repaired in the implementation (regression witnesses). -/
example : reduce [.min 0, .max 5] = .ok ⟨some 0, some 5⟩ := by rfl
example : reduce [.exact 5, .exact 5] = .ok ⟨some 5, some 5⟩ := by rfl
example : reduce [.max (-1)] = .err [Msg.maxNegative (-1)] := by rfl
example : reduce [.min (-2)] = .ok ⟨some 0, none⟩ := by rfl

/-! ## Sets of literals and pattern lists -/

/-- `intersect_set_of_…_constraints`: a literal is kept exactly when every set contains it
(repeated literals inside a set do not matter). -/
theorem intersect_mem (ls : List (List Nat)) (r : List Nat) (h : intersect ls = some r) (x : Nat) :
    x ∈ r ↔ ∀ l ∈ ls, x ∈ l := by
  cases ls with
  | nil => cases h
  | cons l0 rest =>
    simp only [intersect, Option.some.injEq] at h
    subst h
    exact mem_intersect l0 rest x

/-- "Mutually unsatisfiable recognised constraints are reported as errors", membership part, within one class
(former known finding C15-F1, repaired): the reduce step of `infer_set_constraints_by_property_from_invariants`
reports an error exactly when no literal belongs to all the constant sets of the property … -/
theorem reduceSet_err_iff_unsat (site : String) (ls : List (List Nat)) (hne : ls ≠ []) :
    reduceSet site ls = .err ↔ ¬ ∃ x, ∀ l ∈ ls, x ∈ l := by
  cases ls with
  | nil => exact absurd rfl hne
  | cons l0 rest =>
    have hm := mem_intersect l0 rest
    simp only [reduceSet, intersect]
    generalize l0.filter (fun v => rest.countP (fun l => decide (v ∈ l)) = rest.length) = r at hm
    cases r with
    | nil =>
      simp only [List.isEmpty_nil, if_true, true_iff]
      rintro ⟨x, hx⟩
      exact absurd ((hm x).mpr hx) List.not_mem_nil
    | cons y ys =>
      simp only [List.isEmpty_cons, Bool.false_eq_true, if_false, reduceCtorEq, false_iff]
      exact fun h => h ⟨y, (hm y).mp List.mem_cons_self⟩

/-- … and otherwise yields exactly the common literals (never an empty `enum`). -/
theorem reduceSet_ok (site : String) (ls : List (List Nat)) (r : List Nat) (h : reduceSet site ls = .ok r) :
    r ≠ [] ∧ ∀ x, x ∈ r ↔ ∀ l ∈ ls, x ∈ l := by
  simp only [reduceSet] at h
  split at h
  · cases h
  · rename_i l' hl
    split at h
    · cases h
    · rename_i hne
      cases h
      refine ⟨?_, intersect_mem ls _ hl⟩
      intro he
      subst he
      exact hne rfl

/-- The only crash of the reduce step is the violated pre-condition "at least one constraint". -/
theorem reduceSet_crash_iff (site : String) (ls : List (List Nat)) (s : String) :
    reduceSet site ls = .crash s ↔ ls = [] ∧ s = site := by
  cases ls with
  | nil => simp [reduceSet, intersect, eq_comm]
  | cons l0 rest =>
    simp only [reduceSet, intersect]
    split <;> simp

example : reduceSet "" [[0, 1], [2]] = .err := by rfl
example : reduceSet "" [[0, 1], [1, 2]] = .ok [1] := by rfl

/-- The only failure of the intersection is the violated pre-condition "at least one constraint". -/
theorem intersect_none_iff (ls : List (List Nat)) : intersect ls = none ↔ ls = [] := by
  cases ls <;> simp [intersect]

/-- `_merge_set_of_…_constraints` (parent/child): exactly the common literals. -/
theorem mergeSet_mem (a b : List Nat) (x : Nat) : x ∈ mergeSet a b ↔ x ∈ a ∧ x ∈ b :=
  mem_mergeSet a b x

/-- The membership part of "unsatisfiable constraints are reported" across inheritance / stacking (former known
finding C15-F1, repaired): the merge of two literal sets answers with the error exactly when they share no
literal … -/
theorem mergeSetE_none_iff_unsat (a b : List Nat) : mergeSetE a b = none ↔ ¬ ∃ x, x ∈ a ∧ x ∈ b := by
  simp only [mergeSetE]
  cases hm : mergeSet a b with
  | nil =>
    simp only [List.isEmpty_nil, if_true, true_iff]
    rintro ⟨x, hx⟩
    have := (mem_mergeSet a b x).mpr hx
    rw [hm] at this
    exact absurd this List.not_mem_nil
  | cons y ys =>
    simp only [List.isEmpty_cons, Bool.false_eq_true, if_false, reduceCtorEq, false_iff]
    exact fun h => h ⟨y, (mem_mergeSet a b y).mp (hm ▸ List.mem_cons_self)⟩

/-- … and otherwise with exactly the common literals. -/
theorem mergeSetE_mem (a b r : List Nat) (h : mergeSetE a b = some r) (x : Nat) : x ∈ r ↔ x ∈ a ∧ x ∈ b := by
  simp only [mergeSetE] at h
  split at h
  · cases h
  · cases h
    exact mem_mergeSet a b x

example : mergeSetE [0, 1] [2] = none := by rfl
example : mergeSetE [0, 1] [2, 1, 1] = some [1] := by rfl

/-- `_merge_pattern_constraints`: de-duplication keeps the conjunction of all patterns … -/
theorem mergePats_mem (a b : List Nat) (x : Nat) : x ∈ mergePats a b ↔ x ∈ a ∨ x ∈ b :=
  mem_mergePats a b x

/-- … and lists every pattern once. -/
theorem mergePats_nodup (a b : List Nat) : (mergePats a b).Nodup :=
  nodup_dedupAux [] (a ++ b)


/-! ## The recognisers never misread an invariant -/

/-- Whatever `len_constraints_from_invariants`, `patterns_from_invariants` and
`infer_set_constraints_by_property_from_invariants` infer from one invariant of a class (`recognise`:
plain form, `self.p is None or …`, `not (self.p is not None) or …`, conjunctions, `len(self.p) op c` in both
operand orders, pattern verification calls, `self.p in CONSTANT_SET`) is implied by the invariant: in every
environment in which the invariant evaluates to `True` (Python semantics with short-circuiting), the
property is `None` or its value satisfies the inferred constraint.  Assumptions on the environment
(`Env.OK`): `self` is an instance, properties hold `None` or data; a pattern verification function decides its pattern. -/
theorem recognised_implied (env : Env) (pats : List (Ident × Nat)) (hok : env.OK pats)
    (inv : Expr) (p : Ident) (k : K)
    (hk : (p, k) ∈ recognise pats inv) (he : eval env inv = some (.bool true)) :
    env.props p = some .none ∨ ∃ t, env.props p = some (.data t) ∧ k.holds env t :=
  recognise_sound env pats hok inv p k hk he

/-- A guard on *another* property makes the invariant unrecognised (the repaired defect):
`self.a is None or len(self.b) < 5` yields nothing, while the same guard on `b` yields `len(b) ≤ 4`. -/
example : recognise [] (.or [.isNone (.member (.name idSelf) 7),
      .cmp .lt (.call idLen [.member (.name idSelf) 8]) (.const 5)]) = [] := by rfl

example : recognise [] (.or [.isNone (.member (.name idSelf) 8),
      .cmp .lt (.call idLen [.member (.name idSelf) 8]) (.const 5)]) = [(8, K.len (.max 4))] := by rfl

/-- Non-vacuity of `recognised_implied`: an environment satisfying `Env.OK` in which a guarded
invariant evaluates to `True` on a non-`None` value. -/
example :
    let env : Env := { selfVal := .inst, props := fun p => if p = 8 then some (.data [97, 98]) else some .none,
                       names := fun _ => none, others := fun _ => none, fn := fun _ _ => none,
                       sets := fun _ => none, matchesPat := fun _ _ => false }
    env.OK [] ∧
    eval env (.or [.isNone (.member (.name idSelf) 8),
      .cmp .lt (.call idLen [.member (.name idSelf) 8]) (.const 5)]) = some (.bool true) := by
  refine ⟨⟨rfl, ?_, ?_⟩, by rfl⟩
  · intro p v h
    simp only at h
    split at h <;> cases h
    · exact Or.inr ⟨_, rfl⟩
    · exact Or.inl rfl
  · intro f k t h
    simp [lookupId] at h


/-- The same for constrained primitives (`infer_len_constraint_of_self`, `infer_patterns_on_self`; forms
`len(self) op c`, `c op len(self)`, `f(self)`, conjunctions of `f(self)`): in an environment where `self` is the
value `t` itself, an invariant that evaluates to `True` implies every inferred constraint on `t`. -/
theorem recognised_self_implied (env : Env) (pats : List (Ident × Nat)) (t : List Nat)
    (hs : env.selfVal = .data t)
    (hfn : ∀ f k t, lookupId f pats = some k → env.fn f [.data t] = some (.bool (env.matchesPat k t)))
    (inv : Expr) (k : K) (hk : k ∈ recogniseSelf pats inv) (he : eval env inv = some (.bool true)) :
    k.holds env t :=
  recogniseSelf_sound env pats t hs hfn inv k hk he

example : recogniseSelf [(9, 0)] (.and [.call 9 [.name idSelf], .cmp .ge (.const 3) (.call idLen [.name idSelf])])
    = [K.pat 0] := by rfl

example : recogniseSelf [] (.cmp .ge (.const 3) (.call idLen [.name idSelf])) = [K.len (.max 3)] := by rfl

end AasVerif.Props.C15
