import AasVerif.Lemmas.Report
/-!
# C03 — Exit status and error-report contract (report rendering part)

Theorems about `Report.write` (model of `run.write_error_report`).  The exit-path
table theorems over the regenerated skeletons are in `Props/C03Exit.lean`.
-/
namespace AasVerif.Props.C03
open AasVerif AasVerif.PyStr AasVerif.Report

/-- The report function raises exactly when one of its `@require`s is violated. -/
theorem write_ok_iff (m : Text) (es : List Text) :
    (∃ out, write m es = .ok out) ↔ (messageOk m = true ∧ es.all errorOk = true) := by
  unfold write
  by_cases h1 : messageOk m = true <;> by_cases h2 : es.all errorOk = true <;> simp [h1, h2]

/-- Shape of the report: headline `message:` and one bullet per error, in order. -/
theorem write_out (m : Text) (es : List Text) (out : Text) (h : write m es = .ok out) :
    out = m ++ [58, 10] ++ (es.map bullet).flatten := by
  unfold write at h
  split at h
  · simp at h
  · split at h
    · simp at h
    · simp only [Res.ok.injEq] at h
      rw [← h, body]

/-- The first physical line of the error contains a non-blank character. -/
def firstLineVisible (e : Text) : Bool :=
  match splitlinesKeep e with
  | [] => false
  | l :: _ => hasNonSpace l

def indentLine (l : Text) : Text := if hasNonSpace l then [32, 32] ++ l else l

/-- Under `firstLineVisible` a bullet is `* ` + the error with its continuation lines
indented + newline: no character of the error is dropped
(`l :: ls` are the lines of `e`, whose concatenation is `e` by `splitlinesKeep_flatten`). -/
theorem bullet_shape_partial (e : Text) (h : firstLineVisible e = true) :
    ∃ l ls, splitlinesKeep e = l :: ls ∧ (l :: ls).flatten = e ∧
      bullet e = [42, 32] ++ l ++ (ls.map indentLine).flatten ++ [10] := by
  unfold firstLineVisible at h
  cases hs : splitlinesKeep e with
  | nil => rw [hs] at h; simp at h
  | cons l ls =>
    rw [hs] at h
    simp only at h
    refine ⟨l, ls, rfl, ?_, ?_⟩
    · rw [← hs]; exact splitlinesKeep_flatten e
    · unfold bullet indent
      rw [hs]
      simp only [List.map_cons, h, if_true, List.flatten_cons]
      have : ([32, 32] ++ l ++ (List.map (fun line => if hasNonSpace line = true then [32, 32] ++ line else line) ls).flatten).drop 2
          = l ++ (List.map indentLine ls).flatten := by
        have hf : (fun line => if hasNonSpace line = true then [32, 32] ++ line else line) = indentLine := by
          funext line; rfl
        rw [hf]; simp
      rw [this]
      simp

/-- Full strength ("no error text is ever dropped") is FALSE of the code: an error whose
first line is blank passes the `@require`s but loses its first two characters. -/
theorem bullet_keeps_text_full_fails :
    errorOk [32, 10, 120] = true ∧ bullet [32, 10, 120] = [42, 32, 32, 32, 120, 10] := by
  decide

/-- Line structure of the whole report, for a one-line message and errors whose only line
breaks are `\n` and whose first line is visible: the `\n`-separated lines of the output are
the headline `message:`, then per error the line `* <first line>` followed by its
continuation lines (indented by two spaces unless blank), and a final empty string (the
report ends with a newline). -/
theorem report_lines_partial (m : Text) (es : List Text) (hm : 10 ∉ m)
    (hes : ∀ e ∈ es, OnlyNlBreaks e ∧ ∀ l0 ls, splitOn 10 e = l0 :: ls → hasNonSpace l0 = true) :
    splitOn 10 (body m es) = (m ++ [58]) :: (es.flatMap bulletLines ++ [[]]) := by
  have h1 : body m es = (m ++ [58]) ++ 10 :: (es.map bullet).flatten := by simp [body]
  rw [h1, splitOn_append_sep, splitOn_not_mem 10 _ (by simp [hm]),
    splitOn_bullets es bulletLines (fun e he => bullet_lines e (hes e he).1 (hes e he).2)]
  rfl

/-- A continuation line never looks like a bullet. -/
theorem ind_not_bullet (l : Text) : (ind l).head? ≠ some 42 := by
  unfold ind
  split
  · simp
  · next h =>
    cases l with
    | nil => simp
    | cons c cs =>
      simp only [List.head?_cons, ne_eq, Option.some.injEq]
      intro hc
      subst hc
      simp [hasNonSpace, isSpace] at h

/-- The number of bullet lines (lines starting with `*`) among the lines of one error's
entry is exactly one: the entry cannot fake a second bullet. -/
theorem one_bullet_per_error (e : Text) :
    ((bulletLines e).filter (fun l => l.head? == some 42)).length = 1 := by
  unfold bulletLines
  cases hs : splitOn 10 e with
  | nil => exact absurd hs (splitOn_ne_nil 10 e)
  | cons l0 ls =>
    simp only [List.cons_append, List.filter_cons, List.head?_cons, beq_self_eq_true, if_true,
      List.length_cons]
    have : (ls.map ind).filter (fun l => l.head? == some 42) = [] := by
      rw [List.filter_eq_nil_iff]
      intro l hl
      obtain ⟨x, _, hx⟩ := List.mem_map.mp hl
      subst hx
      simpa using ind_not_bullet x
    simp [this]

/-- Non-vacuity of `report_lines_partial`: a nested located error as `error_message` renders it. -/
example : splitOn 10 (body (Text.ofString "Failed") [Text.ofString "At line 1: a\n  At line 2: b"])
    = [Text.ofString "Failed:", Text.ofString "* At line 1: a", Text.ofString "    At line 2: b", []] := by
  decide

/-- Non-vacuity of `bullet_shape_partial`. -/
example : firstLineVisible (Text.ofString "At line 3 and column 5: x\ny") = true := by decide

example : write (Text.ofString "Failed") [Text.ofString "a\nb"]
    = .ok (Text.ofString "Failed:\n* a\n  b\n") := by decide

end AasVerif.Props.C03
