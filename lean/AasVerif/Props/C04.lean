import AasVerif.Lemmas.Lineno
import AasVerif.Gen.Lineno
/-!
# C04 — Reported error locations point at the offending construct

Theorems about the model of `common.LinenoColumner` (`Model/Lineno.lean`): the table of
positions built by `__init__` and the location prefix written by `error_message`.
`nl` (the newline character), the prefix template and the indentation are parameters of the
model; their current values are regenerated from the source into `Gen.Lineno`.

The start offset of a node (`atok.get_text_range(node)[0]`, asttokens) is an input of the model;
that it is the offset of the construct's first character is checked by the oracle of
`harness/props/c04.py` on the real library, not proved here.
-/
namespace AasVerif.Props.C04
open AasVerif AasVerif.Lineno

/-! ## The table -/

/-- One entry per character: `self.positions[start]` is in range exactly for `start < len(text)`. -/
theorem positions_length (nl : Nat) (t : Text) : (positions nl t).length = t.length :=
  positionsAux_length nl 1 0 t

/-- Main theorem: entry `i` is (1 + number of newlines before `i`, 1 + distance of `i` from the
start of its line), where `lineStart` is the index after the last newline before `i`.
For every text, every offset, every newline character — also for the newline characters
themselves, which belong to the line they terminate. -/
theorem positions_spec (nl : Nat) (t : Text) (i : Nat) (h : i < t.length) :
    (positions nl t)[i]? = some (1 + (t.take i).count nl, i - lineStart nl t i + 1) :=
  positions_get nl t i h

/-- `lineStart` really is the start of the line of `i`: it is not after `i`, it is offset 0 or
directly follows a newline, and no newline lies between it and `i`. -/
theorem lineStart_spec (nl : Nat) (t : Text) (i : Nat) :
    lineStart nl t i ≤ i
    ∧ (lineStart nl t i = 0 ∨ t[lineStart nl t i - 1]? = some nl)
    ∧ ∀ j, lineStart nl t i ≤ j → j < i → t[j]? ≠ some nl :=
  ⟨lineStart_le nl t i, lineStart_boundary nl t i, fun j h1 h2 => lineStart_no_newline nl t i j h1 h2⟩

/-- Lines and columns are 1-based everywhere in the table. -/
theorem line_numbers_1_based (nl : Nat) (t : Text) :
    ∀ p ∈ positions nl t, 1 ≤ p.1 ∧ 1 ≤ p.2 := by
  intro p hp
  obtain ⟨i, hi, rfl⟩ := List.getElem_of_mem hp
  rw [positions_length] at hi
  have := positions_spec nl t i hi
  rw [List.getElem?_eq_getElem (by rw [positions_length]; exact hi)] at this
  simp only [Option.some.injEq] at this
  rw [this]
  constructor <;> simp

/-- The first character of the text is at line 1, column 1. -/
theorem first_char_is_1_1 (nl : Nat) (t : Text) (h : 0 < t.length) :
    (positions nl t)[0]? = some (1, 1) := by
  rw [positions_spec nl t 0 h]; simp [lineStart]

/-- The first character of every line (offset 0, or the offset after a newline) has column 1. -/
theorem first_char_of_every_line_is_col_1 (nl : Nat) (t : Text) (i : Nat) (h : i + 1 < t.length)
    (hnl : t[i]? = some nl) :
    (positions nl t)[i + 1]? = some (1 + (t.take (i + 1)).count nl, 1) := by
  rw [positions_spec nl t (i + 1) h]
  simp [lineStart, hnl]

/-- The line number grows by exactly one across a newline and stays the same otherwise. -/
theorem line_increments_at_newline (nl : Nat) (t : Text) (i : Nat) (h : i + 1 < t.length) :
    ∃ l c l' c', (positions nl t)[i]? = some (l, c) ∧ (positions nl t)[i + 1]? = some (l', c')
      ∧ l' = l + (if t[i]? = some nl then 1 else 0) := by
  refine ⟨_, _, _, _, positions_spec nl t i (by omega), positions_spec nl t (i + 1) h, ?_⟩
  obtain ⟨ch, hch⟩ : ∃ ch, t[i]? = some ch := ⟨t[i]'(by omega), List.getElem?_eq_getElem (by omega)⟩
  have := lineOf_succ nl t i ch hch
  unfold lineOf at this
  rw [this, hch]
  by_cases hc : ch = nl <;> simp [hc]

/-- No shift after the first line: the column depends only on the distance from the start of the
line — a character `k` places into *any* line has the column of the character `k` places into
the first line (`k + 1`). -/
theorem no_shift_after_first_line (nl : Nat) (t : Text) (i j : Nat) (hi : i < t.length)
    (hj : j < t.length) (hfirst : lineStart nl t j = 0) (hoff : i - lineStart nl t i = j) :
    ∃ li lj c, (positions nl t)[i]? = some (li, c) ∧ (positions nl t)[j]? = some (lj, c) ∧ c = j + 1 := by
  refine ⟨1 + (t.take i).count nl, 1 + (t.take j).count nl, j + 1, ?_, ?_, rfl⟩
  · rw [positions_spec nl t i hi, hoff]
  · rw [positions_spec nl t j hj, hfirst]; simp

/-- Different offsets have different (line, column) pairs: a reported location identifies one
character of the text. -/
theorem positions_injective (nl : Nat) (t : Text) (i j : Nat) (hi : i < t.length) (hj : j < t.length)
    (h : (positions nl t)[i]? = (positions nl t)[j]?) : i = j := by
  rw [positions_spec nl t i hi, positions_spec nl t j hj] at h
  simp only [Option.some.injEq, Prod.mk.injEq] at h
  obtain ⟨hl, hc⟩ := h
  have hli := lineStart_le nl t i
  have hlj := lineStart_le nl t j
  -- same line number and same column ⇒ same line start ⇒ same offset
  suffices hs : lineStart nl t i = lineStart nl t j by omega
  -- w.l.o.g. compare the two line starts through the newline count
  have key : ∀ a b, a < t.length → b < t.length → (t.take a).count nl = (t.take b).count nl →
      lineStart nl t a ≤ lineStart nl t b := by
    intro a b _ hb hcnt
    by_cases hab : lineStart nl t a ≤ lineStart nl t b
    · exact hab
    · exfalso
      -- lineStart a > lineStart b ≥ 0, so a newline sits at lineStart a - 1 ≥ lineStart b
      have hpos : 0 < lineStart nl t a := by omega
      rcases lineStart_boundary nl t a with h0 | hnl
      · omega
      · have hla := lineStart_le nl t a
        by_cases hlt : lineStart nl t a - 1 < b
        · exact lineStart_no_newline nl t b (lineStart nl t a - 1) (by omega) hlt hnl
        · -- b ≤ lineStart a - 1 < a: the prefix of length a has at least one more newline
          have hb' : b ≤ lineStart nl t a - 1 := by omega
          have h1 : (t.take (lineStart nl t a - 1 + 1)).count nl ≤ (t.take a).count nl := by
            apply List.Sublist.count_le
            exact (List.take_sublist_take_left (by omega) : (t.take (lineStart nl t a - 1 + 1)).Sublist (t.take a))
          have h2 : (t.take b).count nl ≤ (t.take (lineStart nl t a - 1)).count nl := by
            apply List.Sublist.count_le
            exact List.take_sublist_take_left hb'
          rw [List.take_add_one, hnl] at h1
          simp [List.count_append] at h1
          omega
  have h1 := key i j hi hj (by omega)
  have h2 := key j i hj hi (by omega)
  omega

/-! ## The location prefix -/

/-- The prefix template of the current source is `At line {lineno} and column {column}: `. -/
theorem prefix_template_is_at_line_and_column :
    Gen.Lineno.prefixTemplate =
      [.lit (Text.ofString "At line "), .line, .lit (Text.ofString " and column "), .col,
       .lit (Text.ofString ": ")] := by decide

/-- The character that starts a new line in the table is LF. -/
theorem newline_is_lf : Gen.Lineno.newline = 10 := by decide

/-- For a start offset inside the text the prefix names the line and column of that offset. -/
theorem locPrefix_in_range (tpl : List Piece) (nl : Nat) (t : Text) (s : Nat) (h : s < t.length) :
    locPrefix tpl (positions nl t) (some s)
      = .ok (renderTemplate tpl (1 + (t.take s).count nl) (s - lineStart nl t s + 1)) := by
  simp [locPrefix, positions_spec nl t s h]

/-- `self.positions[start]` raises (`IndexError`) exactly for offsets beyond the last character. -/
theorem locPrefix_crash_iff (tpl : List Piece) (nl : Nat) (t : Text) (s : Nat) :
    (∃ site, locPrefix tpl (positions nl t) (some s) = .crash site) ↔ t.length ≤ s := by
  constructor
  · rintro ⟨site, h⟩
    by_cases hs : s < t.length
    · rw [locPrefix_in_range tpl nl t s hs] at h; cases h
    · omega
  · intro h
    refine ⟨"IndexError", ?_⟩
    have : (positions nl t)[s]? = none := by
      rw [List.getElem?_eq_none_iff, positions_length]; exact h
    simp [locPrefix, this]

/-- With the current template: a located error reads
`At line <L> and column <C>: <message>…` with `L`, `C` the 1-based line and column of `start`. -/
theorem located_error_names_position (ind : Text) (t : Text) (s : Nat) (msg : Text)
    (und : List Err) (out : Text) (hs : s < t.length)
    (h : errorMessage Gen.Lineno.prefixTemplate ind (positions Gen.Lineno.newline t) (.mk (some s) msg und) = .ok out) :
    ∃ rest, out = Text.ofString "At line " ++ decimal (1 + (t.take s).count 10)
        ++ Text.ofString " and column " ++ decimal (s - lineStart 10 t s + 1) ++ Text.ofString ": "
        ++ msg ++ rest := by
  rw [errorMessage, locPrefix_in_range _ _ _ _ hs] at h
  simp only [Res.bind] at h
  have htpl : ∀ l c, renderTemplate Gen.Lineno.prefixTemplate l c
      = Text.ofString "At line " ++ decimal l ++ Text.ofString " and column " ++ decimal c ++ Text.ofString ": " := by
    intro l c
    rw [prefix_template_is_at_line_and_column]
    simp [renderTemplate, List.flatMap]
  rw [htpl, newline_is_lf] at h
  cases und with
  | nil =>
    simp only [Res.ok.injEq] at h
    exact ⟨[], by rw [← h]; simp⟩
  | cons u us =>
    simp only at h
    cases hu : underlyingText Gen.Lineno.prefixTemplate ind (positions 10 t) (u :: us) with
    | crash site => rw [hu] at h; simp at h
    | ok body =>
      rw [hu] at h
      simp only [Res.ok.injEq] at h
      exact ⟨10 :: body, by rw [← h]⟩

/-- An error without a node has no prefix: the message comes first. -/
theorem unlocated_error_has_no_prefix (tpl : List Piece) (ind : Text) (pos : List (Nat × Nat))
    (msg : Text) : errorMessage tpl ind pos (.mk none msg []) = .ok msg := by
  simp [errorMessage, locPrefix, Res.bind]

theorem renderTemplate_gen (l c : Nat) : renderTemplate Gen.Lineno.prefixTemplate l c = atLine l c := by
  have : Gen.Lineno.prefixTemplate =
      [.lit (Text.ofString "At line "), .line, .lit (Text.ofString " and column "), .col,
       .lit (Text.ofString ": ")] := by decide
  rw [this]
  simp [renderTemplate, List.flatMap, atLine]

/-- Nesting keeps the locations: every underlying error with a node (offset inside the text), at
any position in the list, starts a fresh line with the indentation followed by
`At line L and column C: ` for the line and column of *its* offset. -/
theorem nested_error_keeps_its_prefix (ind : Text) (t : Text) (st : Option Nat) (msg : Text)
    (us1 : List Err) (s : Nat) (msg' : Text) (und' us2 : List Err) (out : Text) (hs : s < t.length)
    (h : errorMessage Gen.Lineno.prefixTemplate ind (positions Gen.Lineno.newline t)
          (.mk st msg (us1 ++ Err.mk (some s) msg' und' :: us2)) = .ok out) :
    ∃ a b, out = a ++ 10 :: (ind ++ atLine (1 + (t.take s).count Gen.Lineno.newline)
        (s - lineStart Gen.Lineno.newline t s + 1)) ++ b := by
  rw [errorMessage] at h
  cases hp : locPrefix Gen.Lineno.prefixTemplate (positions Gen.Lineno.newline t) st with
  | crash site => rw [hp] at h; simp [Res.bind] at h
  | ok pfx =>
    rw [hp] at h
    simp only [Res.bind] at h
    cases hund : us1 ++ Err.mk (some s) msg' und' :: us2 with
    | nil => simp at hund
    | cons w ws =>
      rw [hund] at h
      simp only at h
      cases hb : underlyingText Gen.Lineno.prefixTemplate ind (positions Gen.Lineno.newline t) (w :: ws) with
      | crash site => rw [hb] at h; simp at h
      | ok body =>
        rw [hb] at h
        simp only [Res.ok.injEq] at h
        rw [← hund] at hb
        obtain ⟨a, b, hab, ha⟩ := underlyingText_keeps_prefix Gen.Lineno.prefixTemplate ind
          Gen.Lineno.newline t atLine renderTemplate_gen atLine_no_break
          (fun l c => ⟨65, _, rfl, by decide⟩) us1 s msg' und' us2 body hs hb
        unfold lineOf colOf at hab
        rcases ha with ha | ⟨a', ha⟩
        · exact ⟨pfx ++ msg, b, by rw [← h, hab, ha]; simp⟩
        · exact ⟨pfx ++ msg ++ 10 :: a', b, by rw [← h, hab, ha]; simp⟩

/-! ## Concrete instances (non-vacuity, and the witnesses of the two repaired defects) -/

/-- The witness of the repaired column shift: `y` of `"x\ny"` is at line 2, column 1
(the unrepaired loop gave column 2). -/
example : positions Gen.Lineno.newline (Text.ofString "x\ny") = [(1, 1), (1, 2), (2, 1)] := by decide

example : positions Gen.Lineno.newline (Text.ofString "\n\nab") = [(1, 1), (2, 1), (3, 1), (3, 2)] := by decide

/-- Hypotheses of `no_shift_after_first_line` are satisfiable: `d` (offset 4, line 2) and `b`
(offset 1, line 1) of `"ab\ncd"`. -/
example : lineStart 10 (Text.ofString "ab\ncd") 1 = 0 ∧ 4 - lineStart 10 (Text.ofString "ab\ncd") 4 = 1 := by decide

example : errorMessage Gen.Lineno.prefixTemplate (Text.ofString "  ")
    (positions Gen.Lineno.newline (Text.ofString "ab\ncd"))
    (.mk (some 4) (Text.ofString "m") [.mk none (Text.ofString "u") []])
    = .ok (Text.ofString "At line 2 and column 2: m\n  u") := by decide

example : errorMessage Gen.Lineno.prefixTemplate Gen.Lineno.indentPrefix
    (positions Gen.Lineno.newline (Text.ofString "ab")) (.mk (some 2) (Text.ofString "m") [])
    = .crash "IndexError" := by decide

/-- `nested_error_keeps_its_prefix` on a concrete tree: the second underlying error (offset 3 = `c`). -/
example : errorMessage Gen.Lineno.prefixTemplate (Text.ofString "  ")
    (positions Gen.Lineno.newline (Text.ofString "ab\ncd"))
    (.mk none (Text.ofString "top") ([.mk none (Text.ofString "u") []] ++ .mk (some 3) (Text.ofString "v") [] :: []))
    = .ok (Text.ofString "top\n  u\n  At line 2 and column 1: v") := by decide

end AasVerif.Props.C04
