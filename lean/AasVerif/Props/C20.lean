import AasVerif.Lemmas.LexBlock
import AasVerif.Gen.Descr
/-!
# C20 — Generated source files are syntactically well-formed (wrapper level)

Text taken from descriptions cannot terminate a comment or docstring early: the
description/comment wrappers of the targets (`Model.Descr`, constants from `Gen.Descr`)
against the comment/string lexers of the languages (`Model.Lex`).
-/
namespace AasVerif.Props.C20
open AasVerif AasVerif.Descr AasVerif.Lex AasVerif.Gen.Descr

/-! ## Block comments (TypeScript, Java) -/

/-- TypeScript/JavaScript: for EVERY text the documentation comment is exactly one comment token
(the text cannot close the comment: `*/` is written `*&#47;`). -/
theorem ts_block_comment_one_token (t : Text) :
    lexC js .code (blockCommentText tsRepls tsOpen tsPre tsSuf tsEmpty tsClose t)
      = [.comment (42 :: 10 :: (starLines (applyRepls tsRepls t) ++ [32]))] := by
  have he : noPair 42 47 false (applyRepls tsRepls t) = true :=
    noPair_replace 42 47 _ (by intro p x; simp [noPair]) t.length t false (Nat.le_refl _) (by intro h; cases h)
  exact block_one_token js _ he

/-- Java: for EVERY text the Unicode-escape translation of JLS 3.3 accepts the documentation
comment and leaves it unchanged, and the result is exactly one comment token. -/
theorem java_block_comment_one_token (t : Text) :
    lexJava (blockCommentText javaRepls javaOpen javaPre javaSuf javaEmpty javaClose t)
      = some [.comment (42 :: 10 :: (starLines (applyRepls javaRepls t) ++ [32]))] := by
  have h1 : noPair 42 47 false (replace [42, 47] [42, 38, 35, 52, 55, 59] t) = true :=
    noPair_replace 42 47 _ (by intro p x; simp [noPair]) t.length t false (Nat.le_refl _) (by intro h; cases h)
  have he1 : noPair 42 47 false (applyRepls javaRepls t) = true :=
    noPair_preserved 42 47 92 117 _ (by intro p x; simp [noPair]) _ _ false (Nat.le_refl _) h1
  have he2 : noPair 92 117 false (applyRepls javaRepls t) = true :=
    noPair_replace 92 117 _ (by intro p x; simp [noPair]) _ _ false (Nat.le_refl _) (by intro h; cases h)
  have hu := block_unescape_id _ he2
  have hl := block_one_token java _ he1
  unfold lexJava
  show Option.map (lexC java St.code) (javaUnescape ([47, 42, 42, 10] ++ starLines (applyRepls javaRepls t) ++ [32, 42, 47])) = _
  rw [hu]
  simp only [Option.map_some]
  rw [hl]

/-- Without the replacement of `*/` the property is false (the defect of the unchanged tree):
`a*/b` closes the comment early. -/
theorem block_comment_needs_star_slash_escape :
    lexC js .code (blockCommentText [] tsOpen tsPre tsSuf tsEmpty tsClose [97, 42, 47, 98])
      ≠ [.comment (42 :: 10 :: (starLines [97, 42, 47, 98] ++ [32]))] := by
  decide

/-- Without the replacement of `\u` the property is false for Java: `\users` is an illegal
Unicode escape (compile error), `*/` closes the comment. -/
theorem java_comment_needs_backslash_u_escape :
    lexJava (blockCommentText [([42, 47], [42, 38, 35, 52, 55, 59])] javaOpen javaPre javaSuf javaEmpty javaClose
      [92, 117, 115, 101, 114, 115]) = none ∧
    (lexJava (blockCommentText [([42, 47], [42, 38, 35, 52, 55, 59])] javaOpen javaPre javaSuf javaEmpty javaClose
      [92, 117, 48, 48, 50, 97, 47])).map List.length = some 5 := by
  decide

end AasVerif.Props.C20
