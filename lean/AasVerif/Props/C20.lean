import AasVerif.Lemmas.LexBlock
import AasVerif.Lemmas.LexLine
import AasVerif.Lemmas.LexLineCppPy
import AasVerif.Lemmas.LexPyDoc
import AasVerif.Lemmas.Indent
import AasVerif.Lemmas.Xml
import AasVerif.Gen.Descr
/-!
# C20 — Generated source files are syntactically well-formed (wrapper level)

Text taken from descriptions cannot terminate a comment or docstring early: the
description/comment wrappers of the targets (`Model.Descr`, constants from `Gen.Descr`)
against the comment/string lexers of the languages (`Model.Lex`).
-/
namespace AasVerif.Props.C20
open AasVerif AasVerif.Descr AasVerif.Lex AasVerif.Gen.Descr

/-! ## Block comments (TypeScript, Java) -/

/-- TypeScript/JavaScript: for EVERY text the documentation comment is exactly one comment token
(the text cannot close the comment: `*/` is written `*&#47;`). -/
theorem ts_block_comment_one_token (t : Text) :
    lexC js .code (blockCommentText tsRepls tsOpen tsPre tsSuf tsEmpty tsClose t)
      = [.comment (42 :: 10 :: (starLines (applyRepls tsRepls t) ++ [32]))] := by
  have he : noPair 42 47 false (applyRepls tsRepls t) = true :=
    noPair_replace 42 47 _ (by intro p x; simp [noPair]) t.length t false (Nat.le_refl _) (by intro h; cases h)
  exact block_one_token js _ he

/-- Java: for EVERY text the Unicode-escape translation of JLS 3.3 accepts the documentation
comment and leaves it unchanged, and the result is exactly one comment token. -/
theorem java_block_comment_one_token (t : Text) :
    lexJava (blockCommentText javaRepls javaOpen javaPre javaSuf javaEmpty javaClose t)
      = some [.comment (42 :: 10 :: (starLines (applyRepls javaRepls t) ++ [32]))] := by
  have h1 : noPair 42 47 false (replace [42, 47] [42, 38, 35, 52, 55, 59] t) = true :=
    noPair_replace 42 47 _ (by intro p x; simp [noPair]) t.length t false (Nat.le_refl _) (by intro h; cases h)
  have he1 : noPair 42 47 false (applyRepls javaRepls t) = true :=
    noPair_preserved 42 47 92 117 _ (by intro p x; simp [noPair]) _ _ false (Nat.le_refl _) h1
  have he2 : noPair 92 117 false (applyRepls javaRepls t) = true :=
    noPair_replace 92 117 _ (by intro p x; simp [noPair]) _ _ false (Nat.le_refl _) (by intro h; cases h)
  have hu := block_unescape_id _ he2
  have hl := block_one_token java _ he1
  unfold lexJava
  show Option.map (lexC java St.code) (javaUnescape ([47, 42, 42, 10] ++ starLines (applyRepls javaRepls t) ++ [32, 42, 47])) = _
  rw [hu]
  simp only [Option.map_some]
  rw [hl]

/-- Without the replacement of `*/` the property is false (the defect of the unchanged tree):
`a*/b` closes the comment early. -/
theorem block_comment_needs_star_slash_escape :
    lexC js .code (blockCommentText [] tsOpen tsPre tsSuf tsEmpty tsClose [97, 42, 47, 98])
      ≠ [.comment (42 :: 10 :: (starLines [97, 42, 47, 98] ++ [32]))] := by
  decide

/-- Without the replacement of `\u` the property is false for Java: `\users` is an illegal
Unicode escape (compile error), `*/` closes the comment. -/
theorem java_comment_needs_backslash_u_escape :
    lexJava (blockCommentText [([42, 47], [42, 38, 35, 52, 55, 59])] javaOpen javaPre javaSuf javaEmpty javaClose
      [92, 117, 115, 101, 114, 115]) = none ∧
    (lexJava (blockCommentText [([42, 47], [42, 38, 35, 52, 55, 59])] javaOpen javaPre javaSuf javaEmpty javaClose
      [92, 117, 48, 48, 50, 97, 47])).map List.length = some 5 := by
  decide

end AasVerif.Props.C20

namespace AasVerif.Props.C20
open AasVerif AasVerif.Descr AasVerif.Lex AasVerif.Gen.Descr

/-! ## Line comments (Go `//`, C# `///`) -/

/-- *Table*: `str.splitlines` splits at least wherever a target language ends a line
(Java, JavaScript/TypeScript, C++, Go, C#; Python: LF and CR). -/
theorem splitlines_covers_line_terminators :
    ∀ cfg ∈ [java, js, cpp, go, cs, ⟨[10, 13], false, [], [10, 13]⟩], ∀ x ∈ cfg.nls, PyStr.isBreak x = true := by
  decide

/-- Go: when the wrapper returns `out`, then `out` followed by the next line lexes as one `//`
comment per line of the text, and the next line is not affected. -/
theorem go_line_comments_only (t out rest : Text) (hne : splitLines t ≠ [])
    (h : lineComment goEmpty goPre id t = .ok out) :
    lexC go .code (out ++ 10 :: rest)
      = ((splitLines t).flatMap fun l => [.comment (if PyStr.hasNonSpace l then 32 :: l else []), .nl])
        ++ lexC go .code rest := by
  have hout := stripped_ok h
  subst hout
  have hsub : ∀ x ∈ go.nls, PyStr.isBreak x = true := splitlines_covers_line_terminators go (by simp)
  have := lexC_joined go (by decide) hsub (fun l => if PyStr.hasNonSpace l then 32 :: l else [])
    (by
      intro l hl
      refine ⟨?_, by simp [continues, go]⟩
      intro x hx
      split at hx
      · rcases List.mem_cons.mp hx with rfl | hx
        · decide
        · exact not_nl_of_not_break go hsub x (hl x hx)
      · cases hx) t rest hne
  rw [← this]
  congr 2
  unfold lineCommentText
  congr 1
  apply List.map_congr_left
  intro l _
  split <;> rfl

/-- C#: the `///` wrapping never violates the `@require` of `_slash_slash_slash_line`. -/
theorem cs_comment_no_newline_crash (t : Text) :
    csComment csEmpty csPre t
      = stripped (joinNl ((splitLines t).map fun l => if l.length = 0 then csEmpty else csPre ++ l)) := by
  unfold csComment
  rw [sssAll_lines]
  intro l hl x hx hx10
  have := splitLines_no_break t l hl x hx
  rw [hx10] at this
  exact absurd this (by decide)

/-- C#: when the wrapping returns `out`, every line of it is one `///` comment token (line ends of
C#: CR, LF, U+0085, U+2028, U+2029) and the next line is not affected. -/
theorem cs_line_comments_only (t out rest : Text) (hne : splitLines t ≠ [])
    (h : csComment csEmpty csPre t = .ok out) :
    lexC cs .code (out ++ 10 :: rest)
      = ((splitLines t).flatMap fun l => [.comment (if l.length = 0 then [47] else 47 :: 32 :: l), .nl])
        ++ lexC cs .code rest := by
  rw [cs_comment_no_newline_crash] at h
  have hout := stripped_ok h
  subst hout
  have hsub : ∀ x ∈ cs.nls, PyStr.isBreak x = true := splitlines_covers_line_terminators cs (by simp)
  have := lexC_joined cs (by decide) hsub (fun l => if l.length = 0 then [47] else 47 :: 32 :: l)
    (by
      intro l hl
      refine ⟨?_, by simp [continues, cs]⟩
      intro x hx
      split at hx
      · simp only [List.mem_singleton] at hx; subst hx; decide
      · rcases List.mem_cons.mp hx with rfl | hx
        · decide
        · rcases List.mem_cons.mp hx with rfl | hx
          · decide
          · exact not_nl_of_not_break cs hsub x (hl x hx)) t rest hne
  rw [← this]
  congr 2
  congr 1
  apply List.map_congr_left
  intro l _
  split <;> rfl

end AasVerif.Props.C20

namespace AasVerif.Props.C20
open AasVerif AasVerif.Descr AasVerif.Gen.Descr

/-! ## C# documentation text -/

/-- `visit_text` of C#: for EVERY text the escaped text is well-formed XML character data
(no `<`, no bare `&`, no `]]>`, only XML `Char`s) and denotes the text with the code points
which XML cannot represent replaced by U+FFFD. -/
theorem xml_escape_wellformed (t : Text) :
    Xml.content (csVisitText csRanges csRepl t) = some (csSanitize csRanges csRepl t) := by
  apply Xml.content_escape
  · intro c h
    simp only [inRanges, csRanges, List.any, Bool.or_eq_true, Bool.and_eq_true, decide_eq_true_eq, Bool.or_false] at h
    simp only [Xml.isChar, Bool.or_eq_true, Bool.and_eq_true, decide_eq_true_eq, beq_iff_eq]
    omega
  · intro y
    have : saxEscape csRepl = [65533] := by decide
    rw [this]
    rw [show ([65533] : Text) ++ y = 65533 :: y from rfl]
    by_cases hy : ∀ r', y ≠ 93 :: 62 :: r'
    · rw [Xml.content_plain 65533 y (by decide) (by decide) (by decide) hy]; rfl
    · rw [Xml.content]
      · simp [Xml.isChar]; rfl
      all_goals (intros; simp_all)

/-- Without the replacement of the non-XML characters the property is false (the defect of the
unchanged tree): U+0001 cannot occur in an XML document. -/
theorem xml_escape_needs_sanitizing : Xml.content (saxEscape [97, 1, 98]) = none := by
  decide

end AasVerif.Props.C20

namespace AasVerif.Props.C20
open AasVerif AasVerif.Descr AasVerif.Lex AasVerif.Gen.Descr

/-! ## Python docstring, C++ `///`: concrete facts
(witnesses of the defects of the unchanged tree and of the repaired behaviour; the general theorems
`docstring_one_token`, `cpp_line_comments_only`, `py_line_comments_only` follow below) -/

def sayHi : Text := [115, 97, 121, 32, 34, 104, 105, 34]

/-- The short form `"""…"""` cannot hold a text ending in a quote (the defect of the unchanged
tree): `"""say "hi""""` is an unterminated string. -/
theorem docstring_short_form_needs_guard :
    lexPython (pyDocShort.1 ++ applyRepls pyDocRepls sayHi ++ pyDocShort.2)
      = [.str sayHi.dropLast, .bad "unterminated-string"] := by
  decide

/-- The wrapper puts such a text on a line of its own: one string token denoting the text. -/
theorem docstring_say_hi :
    (docstring pyDocRepls pyDocLimit pyDocNoShortSuffix pyDocShort pyDocLong sayHi = .ok
      (pyDocLong.1 ++ sayHi ++ pyDocLong.2)) ∧
    lexPython (pyDocLong.1 ++ sayHi ++ pyDocLong.2) = [.str (10 :: sayHi ++ [10])] := by
  decide

/-- Quotes and backslashes inside: `a\"""b""` is one token denoting exactly the text. -/
theorem docstring_nasty_example :
    lexPython (docstringText pyDocRepls pyDocLimit pyDocNoShortSuffix pyDocShort pyDocLong
      [97, 92, 34, 34, 34, 98, 34, 34]) = [.str (10 :: [97, 92, 34, 34, 34, 98, 34, 34] ++ [10])] := by
  decide

/-- C++: a line ending in a backslash (also with white space after it) would splice the next line
to the comment (the defect of the unchanged tree) … -/
theorem cpp_needs_backslash_fix :
    lexC cpp .code (lineCommentText cppEmpty cppPre id [97, 92, 32, 11, 98] ++ [10, 120])
      = [.comment [47, 32, 97, 92, 32, 10, 47, 47, 47, 32, 98], .nl, .code 120] := by
  decide

/-- … with the fix every line is one comment and the next line is code. -/
theorem cpp_backslash_fixed_example :
    lexC cpp .code (lineCommentText cppEmpty cppPre (cppFixLine cppTrail cppRepl) [97, 92, 32, 11, 98] ++ [10, 120])
      = [.comment [47, 32, 97, 38, 35, 57, 50, 59, 32], .nl, .comment [47, 32, 98], .nl, .code 120] := by
  decide

end AasVerif.Props.C20

namespace AasVerif.Props.C20
open AasVerif AasVerif.Descr AasVerif.Lex AasVerif.Gen.Descr

/-! ## Python docstring: one string token for EVERY text -/

theorem docstringText_py (t : Text) :
    docstringText pyDocRepls pyDocLimit pyDocNoShortSuffix pyDocShort pyDocLong t
      = if 3 + (esc t).length + 3 < 70 ∧ endsWith [34] (esc t) = false
        then 34 :: 34 :: 34 :: (esc t ++ [34, 34, 34])
        else 34 :: 34 :: 34 :: 10 :: (esc t ++ [10, 34, 34, 34]) := rfl

/-- Python: for EVERY text without NUL the output of `docstring` is exactly ONE string token —
quotes, triple quotes, backslashes (also at the end of the text) cannot close the string early or
leave it open — and the token denotes the text (short form) or LF + text + LF (long form), with the
line ends CR LF / CR read as LF as the tokenizer does (`pyNl`). -/
theorem docstring_one_token (t : Text) (h0 : ∀ x ∈ t, x ≠ 0) :
    lexPython (docstringText pyDocRepls pyDocLimit pyDocNoShortSuffix pyDocShort pyDocLong t)
      = [.str (pyNl t)] ∨
    lexPython (docstringText pyDocRepls pyDocLimit pyDocNoShortSuffix pyDocShort pyDocLong t)
      = [.str (pyNl (10 :: (t ++ [10])))] := by
  rw [docstringText_py]
  by_cases hc : 3 + (esc t).length + 3 < 70 ∧ endsWith [34] (esc t) = false
  · -- the short form: the escaped text does not end in a quote
    rw [if_pos hc]
    left
    have hlast : t.getLast? = some 34 → ([] : Text) ≠ [] := by
      intro hl
      have h1 : (esc t).getLast? = some 34 := by rw [esc_getLast t.length t (Nat.le_refl _)]; exact hl
      have h2 := (endsWith_quote (esc t)).mpr h1
      rw [hc.2] at h2
      cases h2
    have := s3_scan [] (Or.inl rfl) t.length t [] (Nat.le_refl _) h0 hlast
    simp only [List.nil_append, List.append_nil, List.reverse_nil] at this
    unfold lexPython
    rw [lexPy, this]
  · -- the long form: the text on a line of its own
    rw [if_neg hc]
    right
    have := s3_scan [10] (Or.inr rfl) t.length t [10] (Nat.le_refl _) h0 (fun _ => by simp)
    unfold lexPython
    rw [lexPy, s3_plain [] _ 10 (by decide) (by decide) (by decide) (by intro h; exact absurd h.1 (by decide))]
    rw [show ([10, 34, 34, 34] : Text) = [10] ++ [34, 34, 34] from rfl, this]
    rw [pyNl_cons 10 _ (by decide)]
    rfl

/-- Without carriage returns the token denotes exactly the text (or LF + text + LF). -/
theorem docstring_denotes_text (t : Text) (h0 : ∀ x ∈ t, x ≠ 0) (h13 : ∀ x ∈ t, x ≠ 13) :
    lexPython (docstringText pyDocRepls pyDocLimit pyDocNoShortSuffix pyDocShort pyDocLong t)
      = [.str t] ∨
    lexPython (docstringText pyDocRepls pyDocLimit pyDocNoShortSuffix pyDocShort pyDocLong t)
      = [.str (10 :: (t ++ [10]))] := by
  have h1 : pyNl t = t := pyNl_id t h13
  have h2 : pyNl (10 :: (t ++ [10])) = 10 :: (t ++ [10]) := pyNl_id _ (by
    intro x hx
    rcases List.mem_cons.mp hx with rfl | hx
    · decide
    · rcases List.mem_append.mp hx with hx | hx
      · exact h13 x hx
      · simp only [List.mem_singleton] at hx; subst hx; decide)
  have := docstring_one_token t h0
  rw [h1, h2] at this
  exact this

/-- The hypotheses are satisfiable on a nasty text: `\"""" \` (backslash, four quotes, blank, backslash). -/
example : (∀ x ∈ ([92, 34, 34, 34, 34, 32, 92] : Text), x ≠ 0) ∧ (∀ x ∈ ([92, 34, 34, 34, 34, 32, 92] : Text), x ≠ 13) := by
  decide

/-- The hypothesis "no NUL" is needed: a NUL in the text is a NUL in the source file, which Python
does not read (the front end never passes a NUL on: recorded assumption of the check). -/
theorem docstring_one_token_full_fails :
    lexPython (docstringText pyDocRepls pyDocLimit pyDocNoShortSuffix pyDocShort pyDocLong [97, 0])
      = [.bad "nul"] := by
  decide

/-! ## C++ `///` and Python `#:` line comments: general form -/

/-- C++: for EVERY text, the emitted block followed by the next line lexes as one `//` comment per
line of the text — each line starts with the marker whatever line-boundary characters (CR, VT, FF,
FS, GS, RS, NEL, LS, PS) the text holds, no line ends in a splicing backslash (+ blanks, also GCC's
VT/FF/NUL/CR white space) — and the next line is not affected. -/
theorem cpp_line_comments_text (t rest : Text) (hne : splitLines t ≠ []) :
    lexC cpp .code (lineCommentText cppEmpty cppPre (cppFixLine cppTrail cppRepl) t ++ 10 :: rest)
      = ((splitLines t).flatMap fun l =>
          [.comment (if PyStr.hasNonSpace l then 47 :: 32 :: cppFixLine cppTrail cppRepl l else [47]), .nl])
        ++ lexC cpp .code rest := by
  have hsub : ∀ x ∈ cpp.nls, PyStr.isBreak x = true := splitlines_covers_line_terminators cpp (by simp)
  have := lexC_joined cpp (by decide) hsub
    (fun l => if PyStr.hasNonSpace l then 47 :: 32 :: cppFixLine cppTrail cppRepl l else [47])
    (by
      intro l hl
      have h13 : ∀ x ∈ l, x ≠ 13 := by
        intro x hx h; have := hl x hx; rw [h] at this; revert this; decide
      constructor
      · intro x hx
        split at hx
        · rcases List.mem_cons.mp hx with rfl | hx
          · decide
          · rcases List.mem_cons.mp hx with rfl | hx
            · decide
            · rcases cppFixLine_mem l x hx with hx | hx
              · exact not_nl_of_not_break cpp hsub x (hl x hx)
              · simp only [cppRepl, List.mem_cons, List.mem_nil_iff, or_false] at hx
                rcases hx with rfl | rfl | rfl | rfl | rfl <;> decide
        · simp only [List.mem_singleton] at hx; subst hx; decide
      · split
        · exact cppFixLine_no_splice l h13
        · decide) t rest hne
  rw [← this]
  congr 2
  unfold lineCommentText
  congr 1
  apply List.map_congr_left
  intro l _
  split <;> rfl

/-- C++: the same for what `documentation_comment` returns. -/
theorem cpp_line_comments_only (t out rest : Text) (hne : splitLines t ≠ [])
    (h : lineComment cppEmpty cppPre (cppFixLine cppTrail cppRepl) t = .ok out) :
    lexC cpp .code (out ++ 10 :: rest)
      = ((splitLines t).flatMap fun l =>
          [.comment (if PyStr.hasNonSpace l then 47 :: 32 :: cppFixLine cppTrail cppRepl l else [47]), .nl])
        ++ lexC cpp .code rest := by
  have hout := stripped_ok h
  subst hout
  exact cpp_line_comments_text t rest hne

/-- The hypotheses are satisfiable: `a\ <VT>b<U+2028>` is returned by the wrapper. -/
example : splitLines [97, 92, 32, 11, 98, 8232, 99] ≠ [] ∧
    ∃ out, lineComment cppEmpty cppPre (cppFixLine cppTrail cppRepl) [97, 92, 32, 11, 98, 8232, 99] = .ok out := by
  exact ⟨by decide, _, rfl⟩

/-- Python: for EVERY text without NUL, the emitted `#:` block followed by the next line lexes as one
comment per line of the text, and the next line is not affected. -/
theorem py_line_comments_text (t rest : Text) (h0 : ∀ x ∈ t, x ≠ 0) (hne : splitLines t ≠ []) :
    lexPython (lineCommentText pyEmpty pyPre id t ++ 10 :: rest)
      = ((splitLines t).flatMap fun l =>
          [.comment (if PyStr.hasNonSpace l then 58 :: 32 :: l else [58]), .nl])
        ++ lexPython rest := by
  have := lexPy_joined (fun l => if PyStr.hasNonSpace l then 58 :: 32 :: l else [58])
    (by
      intro l hl x hx
      split at hx
      · rcases List.mem_cons.mp hx with rfl | hx
        · decide
        · rcases List.mem_cons.mp hx with rfl | hx
          · decide
          · have hb := (hl x hx).1
            refine ⟨?_, ?_, (hl x hx).2⟩
            · intro h; rw [h] at hb; revert hb; decide
            · intro h; rw [h] at hb; revert hb; decide
      · simp only [List.mem_singleton] at hx; subst hx; decide) t rest h0 hne
  unfold lexPython
  rw [← this]
  congr 2
  unfold lineCommentText
  congr 1
  apply List.map_congr_left
  intro l _
  split <;> rfl

/-- Python: the same for what `documentation_comment` returns. -/
theorem py_line_comments_only (t out rest : Text) (h0 : ∀ x ∈ t, x ≠ 0) (hne : splitLines t ≠ [])
    (h : lineComment pyEmpty pyPre id t = .ok out) :
    lexPython (out ++ 10 :: rest)
      = ((splitLines t).flatMap fun l =>
          [.comment (if PyStr.hasNonSpace l then 58 :: 32 :: l else [58]), .nl])
        ++ lexPython rest := by
  have hout := stripped_ok h
  subst hout
  exact py_line_comments_text t rest h0 hne

example : (∀ x ∈ ([97, 12, 34, 34, 34, 133, 98] : Text), x ≠ 0) ∧ splitLines [97, 12, 34, 34, 34, 133, 98] ≠ [] ∧
    ∃ out, lineComment pyEmpty pyPre id [97, 12, 34, 34, 34, 133, 98] = .ok out := by
  exact ⟨by decide, by decide, _, rfl⟩

/-! ## Block comments: the pieces of a rendered description -/

/-- TypeScript and Java: the replacement runs over the whole rendered text, so a `*` at the end of
one rendered piece and a `/` at the start of the next one cannot close the comment either. -/
theorem block_comment_adjacent_pieces (pieces : List Text) :
    (∃ body, lexC js .code (blockCommentText tsRepls tsOpen tsPre tsSuf tsEmpty tsClose pieces.flatten)
      = [.comment body]) ∧
    (∃ body, lexJava (blockCommentText javaRepls javaOpen javaPre javaSuf javaEmpty javaClose pieces.flatten)
      = some [.comment body]) :=
  ⟨⟨_, ts_block_comment_one_token _⟩, ⟨_, java_block_comment_one_token _⟩⟩

end AasVerif.Props.C20

namespace AasVerif.Props.C20
open AasVerif AasVerif.Lex

/-! ## TypeScript string literals and U+2028 / U+2029 -/

/-- `typescript/common.py:string_literal` copies U+2028 and U+2029 unescaped. Read with the rules of
ECMAScript 2019 and later (the stated edition) that is one string literal; U+2028 still ends a `//` comment. -/
theorem ts_string_literal_allows_ls_ps :
    lexC js .code [34, 97, 0x2028, 0x2029, 34] = [.str [97, 0x2028, 0x2029]] ∧
    lexC js .code [47, 47, 97, 0x2028, 98] = [.comment [97], .nl, .code 98] := by
  decide

end AasVerif.Props.C20

namespace AasVerif.Props.C20
open AasVerif AasVerif.Descr AasVerif.Lex AasVerif.Indent AasVerif.Gen.Descr

/-! ## The indentation helper: rendered code is cut only at its line feeds -/

/-- `common.indent_but_first_line`: for EVERY non-empty rendered code and every indention without LF,
the LF-separated lines of the result are exactly the LF-separated lines of the code (a last empty one
dropped), the indention in front of all non-empty lines but the first. No other line-boundary character
(U+2028, U+0085, FS … inside a string literal) cuts a line: a literal stays on its line, entire. -/
theorem indent_splits_only_at_lf (ind t : Text) (hind : 10 ∉ ind) (ht : t ≠ []) :
    splitChar 10 (indentButFirst indentSplit indentJoin ind t) = indentLines ind (codeLines 10 t) :=
  indentButFirst_lines 10 ind t hind ht

example : (10 : Nat) ∉ ([32, 32] : Text) ∧ ([34, 0x2028, 34, 44, 10, 34, 98, 34] : Text) ≠ [] := by decide

/-- With `str.splitlines` in the place of `split("\n")` (the defect of the unchanged tree) the statement
is false: the TypeScript literal `"<LS>"` is cut in two lines, neither of which is a string token. -/
theorem indent_with_splitlines_full_fails :
    let old := joinNl (indentLines [32, 32] (splitLines [34, 0x2028, 34]))
    splitChar 10 old ≠ indentLines [32, 32] (codeLines 10 [34, 0x2028, 34]) ∧
    lexC js .code old = [.bad "newline-in-string", .code 32, .code 32, .bad "unterminated-string"] ∧
    lexC js .code (indentButFirst indentSplit indentJoin [32, 32] [34, 0x2028, 34]) = [.str [0x2028]] := by
  decide

end AasVerif.Props.C20
