import AasVerif.Lemmas.CacheLog
import AasVerif.Lemmas.CacheQuiet
import AasVerif.Lemmas.CacheLive4
import AasVerif.Model.CacheFlag
import AasVerif.Model.CachePickle
import AasVerif.Gen.Cache
/-!
# C23 — model caching is opt-in and transparent

Subjects: `Gen.Cache.flag` (the four expressions that carry `--cache_model` from argparse to
`load_model`) and `Gen.Cache.loadModelOps` (op skeleton of `run.load_model`), both regenerated from the
source on every run.
-/
namespace AasVerif.Props.C23
open AasVerif AasVerif.Cache

def world (hash : Nat → Nat) (valid : Nat → Bool) : Cfg :=
  { hash := hash, valid := valid, ops := Gen.Cache.loadModelOps }

/-- The value of `cache_model` inside `load_model` is exactly the command-line flag
(argparse `store_true` → `Parameters(cache_model=bool(args.cache_model))` → `self.cache_model = cache_model`
→ `load_model(cache_model=params.cache_model)`). -/
theorem flag_plumbed (b : Bool) : CacheFlag.plumb Gen.Cache.flag b = some b := by
  cases b <;> decide

/-- API use without the argument: caching is off (`Parameters.__init__` and `load_model` default to False). -/
theorem flag_default_off :
    CacheFlag.plumbDefault Gen.Cache.flag = some false ∧ Gen.Cache.flag.loadModelDefault = some false := by
  decide

/-- Without the flag the program of a run is `readText, compute, ret`: in particular neither
`hashText`/`tempDir` (computation of the cache path, which probes the temp directory) nor any op on
a cache path. -/
theorem quiet_skeleton : QuietSkeleton Gen.Cache.loadModelOps := by
  unfold QuietSkeleton; decide

/-- **no_flag_no_cache.** In any reachable state (any schedule), any event of a run without the
flag leaves the file system, the cache directory and the access log (probe / look / read / write)
unchanged: the cache is neither read nor written nor probed. -/
theorem no_flag_no_cache (hash : Nat → Nat) (valid : Nat → Bool) (sched : List Event) (i : Nat) (p : Proc)
    (hp : (run (world hash valid) sched St.init).procs i = some p) (hf : p.flag = false)
    (ev : Event) (hev : ev = .step i ∨ ev = .exc i ∨ ev = .kill i) :
    let s := run (world hash valid) sched St.init
    (step (world hash valid) s ev).fs = s.fs ∧ (step (world hash valid) s ev).dir = s.dir ∧
    (step (world hash valid) s ev).log = s.log :=
  quiet_effect _ _ i p hp hf
    (run_AllQuiet (world hash valid) quiet_skeleton sched St.init AllQuiet_init i p hp) ev hev

/-- **transparent.** For every history of runs — with or without the flag, cold or warm cache, edits
between runs (other texts), valid or invalid models, sequential or interleaved, even with crashes of
other runs — a run that returns, returns what an uncached run on ITS text returns: a cache entry is
only reused for the text that produced it. -/
theorem transparent (hash : Nat → Nat) (valid : Nat → Bool) (hinj : ∀ a b, hash a = hash b → a = b)
    (sched : List Event) (i : Nat) (p : Proc) (s : Nat)
    (hp : (run (world hash valid) sched St.init).procs i = some p) :
    (p.mode = .finished (.ok s) → s = p.text ∧ valid p.text = true) ∧
    (p.mode = .finished (.err s) → s = p.text ∧ valid p.text = false) := by
  have hsafe : SafeSkeleton Gen.Cache.loadModelOps := by intro flag; cases flag <;> decide
  have h := (run_WF _ hinj hsafe sched St.init (WF_init _)).pure i p hp
  constructor
  · intro hm
    rcases h.outcome _ hm with ho | ho | ho
    · unfold uncached at ho
      split at ho
      · next hv => injection ho with ho; exact ⟨ho, hv⟩
      · cases ho
    · cases ho
    · cases ho
  · intro hm
    rcases h.outcome _ hm with ho | ho | ho
    · unfold uncached at ho
      split at ho
      · cases ho
      · next hv => injection ho with ho; exact ⟨ho, by simpa [world] using hv⟩
    · cases ho
    · cases ho

/-- **transparent, exit status included.** A run that is not itself crashed from outside never
raises: with a cold cache, a warm cache, a cache being written or left half-written by other runs,
it is running or has returned the uncached result of its own text. -/
theorem transparent_total (hash : Nat → Nat) (valid : Nat → Bool) (hinj : ∀ a b, hash a = hash b → a = b)
    (sched : List Event) (i : Nat) (p : Proc)
    (hp : (run (world hash valid) sched St.init).procs i = some p) (hf : p.faulted = false) :
    p.mode = .running ∨ p.mode = .finished (uncached (world hash valid) p.text) := by
  have hsafe : SafeSkeleton Gen.Cache.loadModelOps := by intro flag; cases flag <;> decide
  have hlive : LiveSkeleton Gen.Cache.loadModelOps := by intro flag; cases flag <;> decide
  have h := run_LiveAll (world hash valid) hinj hsafe hlive sched St.init (WF_init _) (LiveAll_init _) i p hp
  rcases h.alive hf with ⟨hm, _⟩ | hfin
  · exact Or.inl hm
  · exact Or.inr hfin

/-- Non-vacuity of `transparent`: cold run on text 3, edit to text 4 (cold again), back to text 3
(warm): results 3, 4, 3; an invalid text 9 gives its error with and without the flag. -/
example :
    let w : Cfg := world id (fun t => t != 9)
    let s := run w ([.spawn 3 true] ++ List.replicate 13 (.step 0) ++ [.spawn 4 true] ++ List.replicate 13 (.step 1)
      ++ [.spawn 3 true] ++ List.replicate 7 (.step 2) ++ [.spawn 9 true] ++ List.replicate 5 (.step 3)
      ++ [.spawn 9 false] ++ List.replicate 2 (.step 4)) St.init
    (s.procs 0).map (·.mode) = some (.finished (.ok 3)) ∧ (s.procs 1).map (·.mode) = some (.finished (.ok 4)) ∧
    (s.procs 2).map (·.mode) = some (.finished (.ok 3)) ∧ (s.procs 2).map (·.loaded) = some (some 3) ∧
    (s.procs 3).map (·.mode) = some (.finished (.err 9)) ∧ (s.procs 4).map (·.mode) = some (.finished (.err 9)) := by
  decide

/-- **reads_once.** For either flag the skeleton reads the model file exactly once, as its very first op, and the entry
is named after the hash of that text: the text a run answers for is the one text it read.  Saving the model file with
another text later in the run changes nothing for the run — this is what reduces histories with an edit *during* a run
(harness event `ed`) to `spawn` on the text that was read (`cache_rig.reduce_edits`). -/
theorem reads_once (flag : Bool) :
    ((program Gen.Cache.loadModelOps flag).map (·.op)).head? = some Op.readText ∧
    ((program Gen.Cache.loadModelOps flag).filter (fun g => g.op == Op.readText)).length = 1 ∧
    Gen.Cache.keyIsHashOfModelText = true := by
  cases flag <;> decide

/-- The cache write gives up on a model that is nested too deeply for the pickler (`except RecursionError` around the
dump) instead of failing a run that succeeds without caching (defect of the pinned tree, repaired). -/
theorem dump_recursion_guarded : Gen.Cache.dumpRecursionGuarded = true := by decide

/-- Every class of `intermediate/_types.py` with pickling hooks recomputes in `__setstate__` exactly
what `__getstate__` drops, with the same `_compute_*` function FED WITH THE SAME SOURCE ATTRIBUTE as on
the constructor/setter path (a recomputation is named `<fn><-<source attribute>` in Gen), and drops
every `*_id_set` attribute (ids do not survive pickling). -/
theorem pickle_hooks_ok : Gen.Cache.pickleHooks.all (·.ok) = true := by
  decide +kernel

/-- **pickle_roundtrip** (abstract): an object whose derived fields are the function `f` of its core
fields — which is what `pickle_hooks_ok` establishes for the constructor path — is restored exactly
by `unpickle ∘ pickle`. -/
theorem pickle_roundtrip (f : List Nat → List Nat) (o : CachePickle.Obj) (h : o.WF f) :
    CachePickle.unpickle f (CachePickle.pickle o) = o := by
  cases o with
  | mk core derived =>
    simp only [CachePickle.Obj.WF] at h
    simp [CachePickle.unpickle, CachePickle.pickle, h]

end AasVerif.Props.C23
