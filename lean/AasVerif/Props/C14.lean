import AasVerif.Model.Xsd
import AasVerif.Props.C13
import AasVerif.Lemmas.XsdSemConv
import AasVerif.Lemmas.XsdFacetsB
import AasVerif.Lemmas.PatternShape
import AasVerif.Gen.PatternShape
/-!
# C14 — XSD enforces the constraints a class declares itself (value level)

The constraints are those `infer_for_schema` inferred for the class that specifies the property
(or for its constrained primitive): they are the input.  `simpleType`/`listOccurs` model what the
generator writes for them; `FacetsValid`/`occursValid` is the validity of XSD facets.
The pattern facet: `pattern_enforced` (a single pattern `^ body $` without inner anchors is enforced
exactly), `pattern_enforced_full_fails` (with an anchor inside the body the written pattern accepts
texts which the meta-model pattern rejects — replayed on the real generator by the check).
The element level (unknown / misplaced / missing elements) is checked by the direct oracle with the
independent validator only — planned, not proved.
-/
namespace AasVerif.Props.C14
open AasVerif AasVerif.Retree AasVerif.XsdPattern AasVerif.Xsd AasVerif.PatternShape

/-- **Length is enforced.** Whatever facets are written for a value whose inferred length bounds are
`mn`/`mx`: a text whose length breaks the bounds is rejected. -/
theorem length_enforced (lit rng : EscTable) (prims : List (String × String)) (xp : Text) (prim : String)
    (mn mx : Option Nat) (pats : List Text) (ty : String) (p : Option Text) (a b : Option Nat) (s : Text)
    (h : simpleType lit rng prims xp prim mn mx pats = .restricted ty p a b)
    (hbreak : lengthOk mn mx s.length = false) : ¬ FacetsValid p a b s := by
  intro hv
  unfold simpleType at h
  split at h
  · cases h
  · split at h
    · split at h
      · cases h
      · injection h with _ _ ha hb; subst ha; subst hb; rw [hv.1] at hbreak; cases hbreak
    · split at h
      · injection h with _ _ ha hb; subst ha; subst hb; rw [hv.1] at hbreak; cases hbreak
      · cases h
    · cases h

/-- **Length is enforced next to intersected patterns.** With two or more patterns the single
`xs:pattern` facet comes from the external intersection (any text `p`); the length facets written
beside it are the inferred bounds, so a text whose length breaks them is rejected whatever `p` is. -/
theorem length_enforced_intersected (lit rng : EscTable) (prims : List (String × String)) (xp : Text) (prim : String)
    (mn mx : Option Nat) (pats : List Text) (ty : String) (p : Option Text) (a b : Option Nat) (s : Text)
    (h : simpleType lit rng prims xp prim mn mx pats = .greenery ty a b)
    (hbreak : lengthOk mn mx s.length = false) : ¬ FacetsValid p a b s := by
  intro hv
  unfold simpleType at h
  split at h
  · cases h
  · split at h
    · split at h <;> cases h
    · split at h <;> cases h
    · injection h with _ ha hb; subst ha; subst hb; rw [hv.1] at hbreak; cases hbreak

/-- The intersection is only used for two or more patterns beside the XML-character pattern. -/
theorem intersection_only_for_several (lit rng : EscTable) (prims : List (String × String)) (xp : Text) (prim ty : String)
    (mn mx a b : Option Nat) (pats : List Text)
    (h : simpleType lit rng prims xp prim mn mx pats = .greenery ty a b) : 2 ≤ (pats.filter (· != xp)).length := by
  unfold simpleType at h
  split at h
  · cases h
  · split at h
    · split at h <;> cases h
    · split at h <;> cases h
    · next hp => rw [hp]; simp

example : simpleType [] [] [("STR", "xs:string")] [120] "STR" (some 2) none [[97], [98], [120]] = .greenery "xs:string" (some 2) none := by decide

/-- If the value has length bounds, a restriction (never a bare `type=`) is written. -/
theorem bounds_are_written (lit rng : EscTable) (prims : List (String × String)) (xp : Text) (prim ty : String)
    (mn mx : Option Nat) (pats : List Text)
    (h : simpleType lit rng prims xp prim mn mx pats = .plain ty) : mn = none ∧ mx = none := by
  unfold simpleType at h
  split at h
  · cases h
  · split at h
    · split at h
      · next hb =>
        simp only [Bool.and_eq_true, Option.isNone_iff_eq_none] at hb
        exact hb
      · cases h
    · split at h <;> cases h
    · cases h

/-- **List size is enforced.** A number of items outside the inferred bounds is rejected by
`minOccurs`/`maxOccurs`. -/
theorem list_size_enforced (mn mx : Option Nat) (n : Nat) (hbreak : lengthOk mn mx n = false) :
    occursValid (listOccurs mn mx) n = false := by
  unfold lengthOk at hbreak
  unfold occursValid listOccurs
  cases mn <;> cases mx <;> simp_all

/-- … and a number of items within the bounds is accepted (C13 direction). -/
theorem list_size_accepted (mn mx : Option Nat) (n : Nat) (hok : lengthOk mn mx n = true) :
    occursValid (listOccurs mn mx) n = true := by
  unfold lengthOk at hok
  unfold occursValid listOccurs
  cases mn <;> cases mx <;> simp_all

/-- **Valid values are accepted (C13, value level, single pattern).** A text without line breaks
whose length is within the inferred bounds and which the inferred pattern accepts is valid against
the written facets. -/
theorem valid_value_accepted (prims : List (String × String)) (xp : Text) (prim ty : String)
    (mn mx : Option Nat) (pat : Text) (r : Regex) (p : Option Text) (a b : Option Nat) (s : Text)
    (hpx : (pat != xp) = true) (hp : parse [.str pat] = .ok r) (hne : r.uniates ≠ [])
    (h : simpleType Gen.Xsd.xsdLiteral Gen.Xsd.xsdRange prims xp prim mn mx [pat] = .restricted ty p a b)
    (hlen : lengthOk mn mx s.length = true) (hn : NoLB s) (hm : FullMatch r s) : FacetsValid p a b s := by
  unfold simpleType at h
  split at h
  · cases h
  · simp only [List.filter_cons, hpx, if_true, List.filter_nil] at h
    split at h
    · next t ht =>
      injection h with _ hpt ha hb
      subst ha; subst hb; subst hpt
      refine ⟨hlen, ?_⟩
      intro t' ht'
      injection ht' with ht'
      subst ht'
      obtain ⟨x, hx, hall⟩ := C13.pattern_superset pat t r hp hne ht
      exact ⟨x, hx, hall s hn hm⟩
    · cases h

/-! ### The pattern facet -/

/-- **C14, pattern (pattern_subset).** For a pattern which the front end parses as `^ body $` with no
further anchor inside `body` (groups included): every text which an XSD processor accepts against the
written pattern is matched by the meta-model pattern — no restriction on the text. -/
theorem pattern_subset (p t : Text) (body : List Term) (hp : parse [.str p] = .ok (anchoredAround body))
    (hna : naTerms body = true)
    (ht : translate Gen.Xsd.xsdLiteral Gen.Xsd.xsdRange p = .ok t) :
    ∃ x, XsdRe.read t = .ok x ∧ ∀ s, XsdRe.Matches x s → FullMatch (anchoredAround body) s :=
  ⟨_, C13.translate_reads_back p t _ hp (by simp [anchoredAround, Union.uniates]) ht,
    fun s hm => conv_anchored body hna s hm⟩

/-- **C14, pattern is enforced.** If the facets written for a value with the single inferred pattern
`p = ^ body $` (no inner anchors) are `.restricted ty pt a b`, then a text which breaks the pattern is
not valid against the facets. -/
theorem pattern_enforced (prims : List (String × String)) (xp : Text) (prim ty : String)
    (mn mx : Option Nat) (pat : Text) (body : List Term) (pt : Option Text) (a b : Option Nat) (s : Text)
    (hpx : (pat != xp) = true) (hp : parse [.str pat] = .ok (anchoredAround body)) (hna : naTerms body = true)
    (h : simpleType Gen.Xsd.xsdLiteral Gen.Xsd.xsdRange prims xp prim mn mx [pat] = .restricted ty pt a b)
    (hbreak : ¬ FullMatch (anchoredAround body) s) : ¬ FacetsValid pt a b s := by
  intro hv
  unfold simpleType at h
  split at h
  · cases h
  · simp only [List.filter_cons, hpx, if_true, List.filter_nil] at h
    split at h
    · next t ht =>
      injection h with _ hpt _ _
      subst hpt
      obtain ⟨x, hx, hall⟩ := pattern_subset pat t body hp hna ht
      obtain ⟨x', hx', hm⟩ := hv.2 t rfl
      rw [hx] at hx'
      injection hx' with hx'
      subst hx'
      exact hbreak (hall s hm)
    · cases h

/-- … and together with `C13.pattern_superset`: on texts without line breaks the written pattern and
the meta-model pattern accept exactly the same texts. -/
theorem pattern_exact (p t : Text) (body : List Term) (hp : parse [.str p] = .ok (anchoredAround body))
    (hna : naTerms body = true)
    (ht : translate Gen.Xsd.xsdLiteral Gen.Xsd.xsdRange p = .ok t) :
    ∃ x, XsdRe.read t = .ok x ∧ ∀ s, NoLB s → (XsdRe.Matches x s ↔ FullMatch (anchoredAround body) s) := by
  obtain ⟨x, hx, hsub⟩ := pattern_subset p t body hp hna ht
  obtain ⟨x', hx', hsup⟩ := C13.pattern_superset p t _ hp (by simp [anchoredAround, Union.uniates]) ht
  rw [hx] at hx'
  injection hx' with hx'
  subst hx'
  exact ⟨x, hx, fun s hn => ⟨hsub s, hsup s hn⟩⟩

/-- the hypotheses of `pattern_subset` are met by an ordinary pattern: `^a[b-c]*(d|e)$` -/
example : ∃ body t, parse [.str [94, 97, 91, 98, 45, 99, 93, 42, 40, 100, 124, 101, 41, 36]] = .ok (anchoredAround body) ∧
    naTerms body = true ∧
    translate Gen.Xsd.xsdLiteral Gen.Xsd.xsdRange [94, 97, 91, 98, 45, 99, 93, 42, 40, 100, 124, 101, 41, 36] = .ok t :=
  ⟨[.mk (.char ⟨97, false⟩) none,
    .mk (.set false [⟨⟨98, false⟩, some ⟨99, false⟩⟩]) (some ⟨false, 0, none⟩),
    .mk (.group (.mk [.mk [.mk (.char ⟨100, false⟩) none], .mk [.mk (.char ⟨101, false⟩) none]])) none], _, rfl, rfl, rfl⟩

/-- *table*: the front end's pattern check (generated from `_verify_patterns_anchored_at_start_and_end`)
holds at most one `^` and at most one `$` to account. -/
theorem front_end_counts_anchors :
    Check.count .start 1 ∈ Gen.PatternShape.checks ∧ Check.count .stop 1 ∈ Gen.PatternShape.checks := by decide

/-- **C14, pattern is enforced for every pattern the front end lets through.** If the front end's pattern
check reports no error for the pattern text `pat`, and the facets written for a value with that single
inferred pattern are `.restricted ty pt a b`, then a text which breaks the pattern (does not match it as a
whole) is not valid against the facets — for every text. -/
theorem front_end_pattern_enforced (prims : List (String × String)) (xp : Text) (prim ty : String)
    (mn mx : Option Nat) (pat : Text) (r : Regex) (pt : Option Text) (a b : Option Nat) (s : Text)
    (hpx : (pat != xp) = true) (hp : parse [.str pat] = .ok r)
    (hshape : patternErrors Gen.PatternShape.checks pat = [])
    (h : simpleType Gen.Xsd.xsdLiteral Gen.Xsd.xsdRange prims xp prim mn mx [pat] = .restricted ty pt a b)
    (hbreak : ¬ FullMatch r s) : ¬ FacetsValid pt a b s := by
  unfold patternErrors at hshape
  rw [hp] at hshape
  obtain ⟨body, hr, hna⟩ := shape_ok_anchored _ front_end_counts_anchors.1 front_end_counts_anchors.2 r
    (C16.parse_outputs_inRange _ r hp) hshape
  subst hr
  exact pattern_enforced prims xp prim ty mn mx pat body pt a b s hpx hp hna h hbreak

/-- non-vacuity: `^a[b-c]*(d|e)$` passes the front end's check; `^a$b$` does not (second `$`). -/
example : patternErrors Gen.PatternShape.checks [94, 97, 91, 98, 45, 99, 93, 42, 40, 100, 124, 101, 41, 36] = [] := by
  decide +kernel
example : patternErrors Gen.PatternShape.checks [94, 97, 36, 98, 36] = [.tooMany .stop] := by decide +kernel

/-- **The statement without the side condition fails**: `^a$b$` is parsed, has a further anchor inside
and matches no text, and yet the written pattern is `ab`, which accepts the text `ab`. -/
theorem pattern_enforced_full_fails :
    ∃ r, parse [.str [94, 97, 36, 98, 36]] = .ok r ∧
      translate Gen.Xsd.xsdLiteral Gen.Xsd.xsdRange [94, 97, 36, 98, 36] = .ok [97, 98] ∧
      XsdRe.matchB (normUnion (raUnion r)) [97, 98] = true ∧
      ¬ FullMatch r [97, 98] := by
  refine ⟨_, rfl, rfl, by decide +kernel, ?_⟩
  intro h
  unfold FullMatch at h
  rw [MUnion_iff] at h
  obtain ⟨ts, hm, ht⟩ := h
  simp only [List.mem_singleton] at hm
  injection hm with hm
  subst hm
  -- ^ a $ b $ : the inner `$` needs an empty rest (or a line feed), but `b` is still to come
  rw [MTerms_cons_iff] at ht
  obtain ⟨s₁, s₂, hs, h1, h2⟩ := ht
  have h1' := MValue_start_iff.mp (MTerm_plain_iff.mp h1)
  obtain ⟨_, rfl⟩ := h1'
  rw [MTerms_cons_iff] at h2
  obtain ⟨a₁, a₂, ha, h3, h4⟩ := h2
  have h3' := MValue_char_iff.mp (MTerm_plain_iff.mp h3)
  subst h3'
  rw [MTerms_cons_iff] at h4
  obtain ⟨b₁, b₂, hb, h5, h6⟩ := h4
  have h5' := MValue_stop_iff.mp (MTerm_plain_iff.mp h5)
  obtain ⟨rfl, h5''⟩ := h5'
  simp at hs ha hb
  subst hb
  subst ha
  simp at hs
  subst hs
  simp at h5''

/-- *table*: the XML-character pattern which `_translate_to_simple_type` skips is the one of the
meta-model conventions. -/
theorem xml_pattern_constant : Gen.Xsd.xmlCharPattern =
    Text.ofString "^[\\x09\\x0A\\x0D\\x20-\\uD7FF\\uE000-\\uFFFD\\U00010000-\\U0010FFFF]*$" := by decide

/-! ### The same on the executable matcher

`XsdRe.matchB` is the matcher the driver runs (C13 correspondence, stream `xsd-match`); by
`C13.read_matchB_decides` it decides `XsdRe.Matches` on every tree the reader produces, so the facet
validity the theorems above speak about is computed by `facetsValidB`. -/

/-- **Facet validity is decided by the executable matcher.** -/
theorem facets_validity_decided (pattern : Option Text) (mn mx : Option Nat) (s : Text) :
    facetsValidB pattern mn mx s = true ↔ FacetsValid pattern mn mx s :=
  facetsValidB_iff pattern mn mx s

/-- `pattern_subset` on the matcher: what the matcher accepts for the written pattern, the meta-model
pattern matches as a whole. -/
theorem pattern_subset_matchB (p t : Text) (body : List Term) (hp : parse [.str p] = .ok (anchoredAround body))
    (hna : naTerms body = true)
    (ht : translate Gen.Xsd.xsdLiteral Gen.Xsd.xsdRange p = .ok t) :
    ∃ x, XsdRe.read t = .ok x ∧ ∀ s, XsdRe.matchB x s = true → FullMatch (anchoredAround body) s := by
  obtain ⟨x, hx, hall⟩ := pattern_subset p t body hp hna ht
  exact ⟨x, hx, fun s hm => hall s (XsdRe.matchB_sound x s hm)⟩

/-- `pattern_exact` on the matcher: on texts without line breaks the matcher's verdict for the written
pattern IS the verdict of the meta-model pattern. -/
theorem pattern_exact_matchB (p t : Text) (body : List Term) (hp : parse [.str p] = .ok (anchoredAround body))
    (hna : naTerms body = true)
    (ht : translate Gen.Xsd.xsdLiteral Gen.Xsd.xsdRange p = .ok t) :
    ∃ x, XsdRe.read t = .ok x ∧ ∀ s, NoLB s → (XsdRe.matchB x s = true ↔ FullMatch (anchoredAround body) s) := by
  obtain ⟨x, hx, hall⟩ := pattern_exact p t body hp hna ht
  exact ⟨x, hx, fun s hn => (C13.read_matchB_decides t x hx s).trans (hall s hn)⟩

/-- `front_end_pattern_enforced`, computed: the executable facet validity answers `false` for every text
which breaks a pattern the front end lets through. -/
theorem front_end_pattern_enforced_computed (prims : List (String × String)) (xp : Text) (prim ty : String)
    (mn mx : Option Nat) (pat : Text) (r : Regex) (pt : Option Text) (a b : Option Nat) (s : Text)
    (hpx : (pat != xp) = true) (hp : parse [.str pat] = .ok r)
    (hshape : patternErrors Gen.PatternShape.checks pat = [])
    (h : simpleType Gen.Xsd.xsdLiteral Gen.Xsd.xsdRange prims xp prim mn mx [pat] = .restricted ty pt a b)
    (hbreak : ¬ FullMatch r s) : facetsValidB pt a b s = false := by
  have := front_end_pattern_enforced prims xp prim ty mn mx pat r pt a b s hpx hp hshape h hbreak
  rw [← facetsValidB_iff] at this
  simpa using this

/-- `valid_value_accepted`, computed. -/
theorem valid_value_accepted_computed (prims : List (String × String)) (xp : Text) (prim ty : String)
    (mn mx : Option Nat) (pat : Text) (r : Regex) (p : Option Text) (a b : Option Nat) (s : Text)
    (hpx : (pat != xp) = true) (hp : parse [.str pat] = .ok r) (hne : r.uniates ≠ [])
    (h : simpleType Gen.Xsd.xsdLiteral Gen.Xsd.xsdRange prims xp prim mn mx [pat] = .restricted ty p a b)
    (hlen : lengthOk mn mx s.length = true) (hn : NoLB s) (hm : FullMatch r s) : facetsValidB p a b s = true :=
  (facetsValidB_iff p a b s).mpr (valid_value_accepted prims xp prim ty mn mx pat r p a b s hpx hp hne h hlen hn hm)

/-- the computed validity on concrete facets: `a[b-c]*` with length 1..3 accepts `abc`, rejects `abd`
(pattern) and `abcb` (length) -/
example : facetsValidB (some [97, 91, 98, 45, 99, 93, 42]) (some 1) (some 3) [97, 98, 99] = true ∧
    facetsValidB (some [97, 91, 98, 45, 99, 93, 42]) (some 1) (some 3) [97, 98, 100] = false ∧
    facetsValidB (some [97, 91, 98, 45, 99, 93, 42]) (some 1) (some 3) [97, 98, 99, 98] = false := by decide

end AasVerif.Props.C14
