import AasVerif.Model.Xsd
import AasVerif.Props.C13
/-!
# C14 — XSD enforces the constraints a class declares itself (value level)

The constraints are those `infer_for_schema` inferred for the class that specifies the property
(or for its constrained primitive): they are the input.  `simpleType`/`listOccurs` model what the
generator writes for them; `FacetsValid`/`occursValid` is the validity of XSD facets.
The element level (unknown / misplaced / missing elements) is checked by the direct oracle with the
independent validator only — planned, not proved.
-/
namespace AasVerif.Props.C14
open AasVerif AasVerif.Retree AasVerif.XsdPattern AasVerif.Xsd

/-- **Length is enforced.** Whatever facets are written for a value whose inferred length bounds are
`mn`/`mx`: a text whose length breaks the bounds is rejected. -/
theorem length_enforced (lit rng : EscTable) (prims : List (String × String)) (xp : Text) (prim : String)
    (mn mx : Option Nat) (pats : List Text) (ty : String) (p : Option Text) (a b : Option Nat) (s : Text)
    (h : simpleType lit rng prims xp prim mn mx pats = .restricted ty p a b)
    (hbreak : lengthOk mn mx s.length = false) : ¬ FacetsValid p a b s := by
  intro hv
  unfold simpleType at h
  split at h
  · cases h
  · split at h
    · split at h
      · cases h
      · injection h with _ _ ha hb; subst ha; subst hb; rw [hv.1] at hbreak; cases hbreak
    · split at h
      · injection h with _ _ ha hb; subst ha; subst hb; rw [hv.1] at hbreak; cases hbreak
      · cases h
    · cases h

/-- **Length is enforced next to intersected patterns.** With two or more patterns the single
`xs:pattern` facet comes from the external intersection (any text `p`); the length facets written
beside it are the inferred bounds, so a text whose length breaks them is rejected whatever `p` is. -/
theorem length_enforced_intersected (lit rng : EscTable) (prims : List (String × String)) (xp : Text) (prim : String)
    (mn mx : Option Nat) (pats : List Text) (ty : String) (p : Option Text) (a b : Option Nat) (s : Text)
    (h : simpleType lit rng prims xp prim mn mx pats = .greenery ty a b)
    (hbreak : lengthOk mn mx s.length = false) : ¬ FacetsValid p a b s := by
  intro hv
  unfold simpleType at h
  split at h
  · cases h
  · split at h
    · split at h <;> cases h
    · split at h <;> cases h
    · injection h with _ ha hb; subst ha; subst hb; rw [hv.1] at hbreak; cases hbreak

/-- The intersection is only used for two or more patterns beside the XML-character pattern. -/
theorem intersection_only_for_several (lit rng : EscTable) (prims : List (String × String)) (xp : Text) (prim ty : String)
    (mn mx a b : Option Nat) (pats : List Text)
    (h : simpleType lit rng prims xp prim mn mx pats = .greenery ty a b) : 2 ≤ (pats.filter (· != xp)).length := by
  unfold simpleType at h
  split at h
  · cases h
  · split at h
    · split at h <;> cases h
    · split at h <;> cases h
    · next hp => rw [hp]; simp

example : simpleType [] [] [("STR", "xs:string")] [120] "STR" (some 2) none [[97], [98], [120]] = .greenery "xs:string" (some 2) none := by decide

/-- If the value has length bounds, a restriction (never a bare `type=`) is written. -/
theorem bounds_are_written (lit rng : EscTable) (prims : List (String × String)) (xp : Text) (prim ty : String)
    (mn mx : Option Nat) (pats : List Text)
    (h : simpleType lit rng prims xp prim mn mx pats = .plain ty) : mn = none ∧ mx = none := by
  unfold simpleType at h
  split at h
  · cases h
  · split at h
    · split at h
      · next hb =>
        simp only [Bool.and_eq_true, Option.isNone_iff_eq_none] at hb
        exact hb
      · cases h
    · split at h <;> cases h
    · cases h

/-- **List size is enforced.** A number of items outside the inferred bounds is rejected by
`minOccurs`/`maxOccurs`. -/
theorem list_size_enforced (mn mx : Option Nat) (n : Nat) (hbreak : lengthOk mn mx n = false) :
    occursValid (listOccurs mn mx) n = false := by
  unfold lengthOk at hbreak
  unfold occursValid listOccurs
  cases mn <;> cases mx <;> simp_all

/-- … and a number of items within the bounds is accepted (C13 direction). -/
theorem list_size_accepted (mn mx : Option Nat) (n : Nat) (hok : lengthOk mn mx n = true) :
    occursValid (listOccurs mn mx) n = true := by
  unfold lengthOk at hok
  unfold occursValid listOccurs
  cases mn <;> cases mx <;> simp_all

/-- **Valid values are accepted (C13, value level, single pattern).** A text without line breaks
whose length is within the inferred bounds and which the inferred pattern accepts is valid against
the written facets. -/
theorem valid_value_accepted (prims : List (String × String)) (xp : Text) (prim ty : String)
    (mn mx : Option Nat) (pat : Text) (r : Regex) (p : Option Text) (a b : Option Nat) (s : Text)
    (hpx : (pat != xp) = true) (hp : parse [.str pat] = .ok r) (hne : r.uniates ≠ [])
    (h : simpleType Gen.Xsd.xsdLiteral Gen.Xsd.xsdRange prims xp prim mn mx [pat] = .restricted ty p a b)
    (hlen : lengthOk mn mx s.length = true) (hn : NoLB s) (hm : FullMatch r s) : FacetsValid p a b s := by
  unfold simpleType at h
  split at h
  · cases h
  · simp only [List.filter_cons, hpx, if_true, List.filter_nil] at h
    split at h
    · next t ht =>
      injection h with _ hpt ha hb
      subst ha; subst hb; subst hpt
      refine ⟨hlen, ?_⟩
      intro t' ht'
      injection ht' with ht'
      subst ht'
      obtain ⟨x, hx, hall⟩ := C13.pattern_superset pat t r hp hne ht
      exact ⟨x, hx, hall s hn hm⟩
    · cases h

/-- *table*: the XML-character pattern which `_translate_to_simple_type` skips is the one of the
meta-model conventions. -/
theorem xml_pattern_constant : Gen.Xsd.xmlCharPattern =
    Text.ofString "^[\\x09\\x0A\\x0D\\x20-\\uD7FF\\uE000-\\uFFFD\\U00010000-\\U0010FFFF]*$" := by decide

end AasVerif.Props.C14
