import AasVerif.Lemmas.TsPreserve
import AasVerif.Lemmas.JavaPreserve
import AasVerif.Lemmas.CppPreserve
import AasVerif.Lemmas.TsSem
import AasVerif.Lemmas.PyEmit
/-!
# C09 — runnable SDK targets agree with the Python SDK (the decidable, expression-level slice)

Nothing of the TypeScript, Java and C++ SDKs can be built or run in this sandbox, so whole-SDK
verdicts and JSON (de)serialization are **not** decided here.  What is proved is about the three
*transpilers of invariant expressions* (`Model/TargetEmit.lean`, tied to the sources by the Gen
tables and by correspondence on real transpiler output) and about the meaning of what they emit
(`Model/TargetEval.lean`).

Outcomes are compared coarsely (`coarse`): the same value, or both raise.  A target evaluation may
be `off` — outside the domain on which the language's semantics is modelled and agrees with
Python (see the `*_differs` theorems for what is excluded and why); nothing is claimed then.
-/
namespace AasVerif.Props.C09
open AasVerif AasVerif.Expr AasVerif.TargetEmit
open AasVerif.PyEmit (Res)

/-! ## (1) table theorems -/

/-- TypeScript: `_TYPESCRIPT_COMPARISON_MAP` sends every comparator to the operator of the same meaning. -/
theorem ts_comparison_table_faithful (op : Cmp) :
    emitCmp Gen.TargetEmit.Ts.comparisonMap op = .ok op := by cases op <;> rfl

/-- Java: `_JAVA_COMPARISON_MAP` sends every comparator to the operator of the same meaning. -/
theorem java_comparison_table_faithful (op : Cmp) :
    emitCmp Gen.TargetEmit.Java.comparisonMap op = .ok op := by cases op <;> rfl

/-- C++: `_CPP_COMPARISON_MAP` sends every comparator to the operator of the same meaning. -/
theorem cpp_comparison_table_faithful (op : Cmp) :
    emitCmp Gen.TargetEmit.Cpp.comparisonMap op = .ok op := by cases op <;> rfl

/-- the `transform_*` method that handles a node class -/
def handlerOf : Kind → String
  | .Member => "transform_member" | .Index => "transform_index" | .Comparison => "transform_comparison"
  | .IsIn => "transform_is_in" | .Implication => "transform_implication" | .MethodCall => "transform_method_call"
  | .Name => "transform_name" | .FunctionCall => "transform_function_call" | .Constant => "transform_constant"
  | .IsNone => "transform_is_none" | .IsNotNone => "transform_is_not_none" | .Not => "transform_not"
  | .And => "transform_and" | .Or => "transform_or" | .Add => "transform_add" | .Sub => "transform_sub"
  | .JoinedStr => "transform_joined_str" | .Any => "transform_any" | .All => "transform_all"

/-- Every node class of the invariant language has its own handler in each of the three transpiler
classes (none is left to a silent default). -/
theorem every_node_kind_handled (k : Kind) :
    handlerOf k ∈ Gen.TargetEmit.Ts.handlers ∧ handlerOf k ∈ Gen.TargetEmit.Java.handlers ∧
      handlerOf k ∈ Gen.TargetEmit.Cpp.handlers := by
  cases k <;> decide

/-- No silent drop in the models: a successful TypeScript transpilation of a comparison, a
membership test, an implication, a conjunction … contains the transpilation of every operand
(shown here for the binary nodes through the shape of the result). -/
theorem ts_cmp_shape (cfg : TCfg) (vs : List Text) (l r : Expr) (op : Cmp) (x : TExpr)
    (h : Ts.transpile cfg vs (.cmp l op r) = .ok x) :
    ∃ l' r', Ts.transpile cfg vs l = .ok l' ∧ Ts.transpile cfg vs r = .ok r' ∧
      (x = .compare l' op r' ∨ x = .compare (.paren l') op (.paren r')) := by
  simp only [Ts.transpile, Res.bind_eq_ok, Ts.emitCmp_ok] at h
  obtain ⟨o, ho, l', hl, r', hr, h⟩ := h
  cases ho
  refine ⟨l', r', hl, hr, ?_⟩
  split at h <;> cases h <;> simp

/-! ## (2) TypeScript: what is emitted means what the invariant means -/

/-- **ts_preserves** (whole invariant language).  For every expression the TypeScript transpiler
accepts, in every environment in which `len` is the built-in: evaluating the emitted expression
with the TypeScript semantics `tsSem` either leaves the modelled domain, or gives exactly the
(coarse) outcome of the Python evaluation of the source expression. -/
theorem ts_preserves (cfg : TCfg) (vs : List Text) (e : Expr) (x : TExpr)
    (hv : noLenVar e = true) (h : Ts.transpile cfg vs e = .ok x) (ρ : Env) (hl : LenBuiltin ρ) :
    evalT tsSem ρ x = .off ∨ evalT tsSem ρ x = coarse (Expr.eval ρ e) :=
  TargetEmit.ts_preserves tsSem tsSem_sound cfg e vs x hv h ρ hl

/-- … for any semantics of the target that agrees with Python where it is defined. -/
theorem ts_preserves_any_sound_semantics (sem : Sem) (hs : SemSound sem) (cfg : TCfg) (vs : List Text)
    (e : Expr) (x : TExpr) (hv : noLenVar e = true) (h : Ts.transpile cfg vs e = .ok x) (ρ : Env)
    (hl : LenBuiltin ρ) : evalT sem ρ x = .off ∨ evalT sem ρ x = coarse (Expr.eval ρ e) :=
  TargetEmit.ts_preserves sem hs cfg e vs x hv h ρ hl

/-- The semantics used is sound: wherever a TypeScript primitive is defined in `tsSem` it computes
what the Python primitive computes. -/
theorem ts_semantics_sound : SemSound tsSem := tsSem_sound

/-! ## (3) composed with C08: the TypeScript invariant agrees with the Python SDK's invariant -/

/-- **C09 at expression level, TypeScript.** On every instance (environment) the condition the
TypeScript SDK evaluates for an invariant and the condition the Python SDK evaluates for the same
invariant have the same outcome (same value, or both raise) — unless the TypeScript evaluation
leaves the modelled domain. -/
theorem ts_agrees_with_python_sdk (cfg : TCfg) (pcfg : PyEmit.Cfg) (e : Expr) (x : TExpr) (px : PyEmit.PyExpr)
    (hv : noLenVar e = true) (hfloat : PyEmit.noNan e = true)
    (h : Ts.transpile cfg [] e = .ok x) (hp : PyEmit.transpile pcfg [] e = .ok px)
    (ρ : Env) (hl : LenBuiltin ρ) :
    evalT tsSem ρ x = .off ∨ evalT tsSem ρ x = coarse (PyEmit.PyExpr.eval ρ px) := by
  rw [PyEmit.preserves pcfg e [] px hfloat hp ρ]
  exact ts_preserves cfg [] e x hv h ρ hl

/-! ## What is excluded from the domain, and why: ECMAScript differs from Python there -/

/-- `"😀".length` is 2 in TypeScript (UTF-16 code units), `len("😀")` is 1 in Python. -/
theorem ts_length_of_astral_differs :
    jsLen .tsLength (.str [0x1F600]) = some (.val (.int 2)) ∧ lenVal (.str [0x1F600]) = .val (.int 1) :=
  ⟨rfl, rfl⟩

/-- `"😀" < "�"` in TypeScript (code units D83D < FFFD) but not in Python (code points). -/
theorem ts_string_order_differs (f : FloatOps) :
    jsCmp .lt (.str [0x1F600]) (.str [0xFFFD]) = some (.val (.bool true)) ∧
      cmpVals f .lt (.str [0x1F600]) (.str [0xFFFD]) = .val (.bool false) :=
  ⟨rfl, rfl⟩

/-- An empty array is true in a TypeScript condition and false in a Python one. -/
theorem ts_truthiness_of_empty_list_differs (f : FloatOps) :
    jsTruthy (.list []) = some true ∧ Val.truthy f (.list []) = false := by
  constructor <;> rfl

/-- Full statement (false): with the ECMAScript primitives on *all* strings, the emitted
`that.length == 1` and the Python `len(self) == 1` disagree on `self = "😀"`. -/
def tsSemAllStrings : Sem := { tsSem with len := jsLen }

def cfgLen : TCfg :=
  ⟨⟨fun _ => none, fun _ _ => none, fun n => if n = TargetEmit.lenName then .builtinLen else .notFunction⟩,
   fun _ => some ⟨.cprim .str, false, false⟩⟩

def envAstral : Env :=
  ⟨[(TargetEmit.selfName, .str [0x1F600])], fun _ => none, fun _ _ => none,
   ⟨fun _ _ _ => .otherError, fun _ _ _ => .otherError, fun _ => false, fun t => t⟩, fun _ => .otherError⟩

def lenIsOne : Expr := .cmp (.funCall TargetEmit.lenName [.name TargetEmit.selfName]) .eq (.const (.int 1))

theorem representable_one : Ts.representable 1 = some true := by decide

set_option maxRecDepth 8000 in
theorem ts_preserves_full_fails :
    ∃ x, Ts.transpile cfgLen [] lenIsOne = .ok x ∧
      evalT tsSemAllStrings envAstral x = .val (.bool false) ∧
      coarse (Expr.eval envAstral lenIsOne) = .val (.bool true) := by
  refine ⟨.compare (.len .tsLength .that) .eq (.lit (.int 1)), ?_, rfl, rfl⟩
  simp [Ts.transpile, lenIsOne, cfgLen, Res.bind, Ts.emitCmp_ok, transpileName, TargetEmit.selfName,
    TargetEmit.lenName, Ts.transpileConst, representable_one, parenUnless, Expr.kind, TTag.primitive?,
    Gen.TargetEmit.Ts.comparison, Gen.TargetEmit.Ts.len]

/-- Non-vacuity: `not (self.a is not None) or len(self.a) >= 1` on an instance with `a = "xy"` is
inside the domain, and the emitted `!(that.a !== null) || (that.a.length >= 1)` evaluates to the
Python verdict. -/
def cfgA : TCfg :=
  ⟨⟨fun _ => none, fun _ _ => some .prop, fun n => if n = TargetEmit.lenName then .builtinLen else .notFunction⟩,
   fun _ => some ⟨.prim .str, true, true⟩⟩

def invA : Expr :=
  .impl (.isNotNone (.member (.name TargetEmit.selfName) [97]))
    (.cmp (.funCall TargetEmit.lenName [.member (.name TargetEmit.selfName) [97]]) .ge (.const (.int 1)))

def envA : Env :=
  ⟨[(TargetEmit.selfName, .inst 0 [67] [([97], .str [120, 121])])], fun _ => none, fun _ _ => none,
   ⟨fun _ _ _ => .otherError, fun _ _ _ => .otherError, fun _ => false, fun t => t⟩, fun _ => .otherError⟩

def outA : TExpr :=
  .boolop false
    [.not (.paren (.isNull .tsStrict false (.attr .that .prop [97]))),
     .paren (.compare (.len .tsLength (.attr .that .prop [97])) .ge (.lit (.int 1)))]

set_option maxRecDepth 8000 in
theorem ts_example_transpiles : Ts.transpile cfgA [] invA = .ok outA ∧ noLenVar invA = true := by
  refine ⟨?_, rfl⟩
  simp [Ts.transpile, invA, outA, cfgA, Res.bind, Ts.emitCmp_ok, transpileName, TargetEmit.selfName,
    TargetEmit.lenName, Ts.transpileConst, representable_one, parenUnless, Expr.kind, TTag.primitive?,
    Gen.TargetEmit.Ts.comparison, Gen.TargetEmit.Ts.len, Gen.TargetEmit.Ts.implication,
    Gen.TargetEmit.Ts.isNotNone]

set_option maxRecDepth 8000 in
/-- … and the evaluation is inside the domain, with the Python verdict. -/
theorem ts_example_in_domain :
    evalT tsSem envA outA = .val (.bool true) ∧ coarse (Expr.eval envA invA) = .val (.bool true) :=
  ⟨rfl, rfl⟩

/-! ## (2') Java: what is emitted means what the invariant means -/

/-- **java_preserves** (whole invariant language; the literal parts of f-strings without braces).
For every expression the Java transpiler accepts (whatever the context flags of the node), in every
environment in which `len` is the built-in: evaluating the emitted expression with the Java
semantics `javaSem` either leaves the modelled domain, or gives exactly the (coarse) outcome of the
Python evaluation of the source expression.  Covers `Optional` unwrapping (`.get()`,
`.orElse(null)`, `.isPresent()`), `c.get(c.size() - n)` for constant indices from the end,
`length()` / `size()`, `contains`, streams with `anyMatch` / `allMatch`, `IntStream.range`. -/
theorem java_preserves (cfg : TCfg) (vs : List Text) (ctx : Java.Ctx) (e : Expr) (x : TExpr)
    (hv : noLenVar e = true) (hb : noBraces e = true) (h : Java.transpile cfg vs ctx e = .ok x)
    (ρ : Env) (hl : LenBuiltin ρ) :
    evalT javaSem ρ x = .off ∨ evalT javaSem ρ x = coarse (Expr.eval ρ e) :=
  TargetEmit.java_preserves javaSem javaSem_sound javaSem_sizeIndex cfg e vs ctx x hv hb h ρ hl

/-- The Java semantics used is sound: wherever a primitive is defined in `javaSem` it computes what
the Python primitive computes (including the index `size() - n` counted from the end). -/
theorem java_semantics_sound : SemSound javaSem ∧ SizeIndexSound javaSem := ⟨javaSem_sound, javaSem_sizeIndex⟩

/-- **C09 at expression level, Java.** The condition the Java SDK evaluates for an invariant and the
condition the Python SDK evaluates for it have the same outcome on every instance — unless the Java
evaluation leaves the modelled domain (which it does for `==` on two strings or two boxed numbers:
C09-F1). -/
theorem java_agrees_with_python_sdk (cfg : TCfg) (pcfg : PyEmit.Cfg) (e : Expr) (x : TExpr) (px : PyEmit.PyExpr)
    (hv : noLenVar e = true) (hb : noBraces e = true) (hfloat : PyEmit.noNan e = true)
    (h : Java.transpile cfg [] .plain e = .ok x) (hp : PyEmit.transpile pcfg [] e = .ok px)
    (ρ : Env) (hl : LenBuiltin ρ) :
    evalT javaSem ρ x = .off ∨ evalT javaSem ρ x = coarse (PyEmit.PyExpr.eval ρ px) := by
  rw [PyEmit.preserves pcfg e [] px hfloat hp ρ]
  exact java_preserves cfg [] .plain e x hv hb h ρ hl

/-- Outside the domain: `==` on two `String` operands (both of reference type) is a comparison of
references in Java; `javaSem` claims nothing for it (finding C09-F1, confirmed by javac + java). -/
theorem java_string_equality_is_outside_the_domain (f : FloatOps) (a b : Text) (op : Cmp) :
    javaSem.cmp f op true true (.str a) (.str b) = none := by
  cases op <;> rfl

/-- … and so is `==` on two boxed numbers, while a boxed number against a primitive is compared by value. -/
theorem java_boxed_number_equality (f : FloatOps) :
    javaSem.cmp f .eq true true (.int 1000) (.int 1000) = none ∧
      javaSem.cmp f .eq true false (.int 1000) (.int 1000) = some (.val (.bool true)) := ⟨rfl, rfl⟩

/-- Full statement (false) without `noBraces`: the Java transpiler doubles the braces of the literal
parts of an f-string, so `f"{{"` (the text `{`) is emitted as the Java literal `"{{"`. -/
theorem java_preserves_full_fails :
    ∃ (cfg : TCfg) (e : Expr) (x : TExpr) (ρ : Env),
      Java.transpile cfg [] .plain e = .ok x ∧
      evalT javaSem ρ x = .val (.str [123, 123]) ∧ coarse (Expr.eval ρ e) = .val (.str [123]) :=
  ⟨cfgA, .joinedStr [.lit [123]], .interp .java [.lit [123, 123]], envA, rfl, rfl, rfl⟩

/-- `"😀".length()` is 2 in Java as well. -/
theorem java_length_of_astral_is_outside_the_domain : javaSem.len .javaLength (.str [0x1F600]) = none := rfl

/-! ## (2'') C++: what is emitted means what the invariant means -/

/-- **cpp_preserves** (whole invariant language).  `D` lists the enumerations with their literals.
If the configuration says "enumeration type" only of the names of these enumerations (`CfgEnum`),
no generator variable hides `len` or an enumeration and there is no member access on an
enumeration *value* (`cppOK`), then in every environment in which `len` is the built-in and the
enumeration names denote their classes (`CppEnv`): evaluating the emitted expression with the C++
semantics `cppSem` either leaves the modelled domain, or gives exactly the (coarse) outcome of the
Python evaluation.  Covers the de-referencing of optionals at every operand position (`*x`,
`(*(x))`), `types::Enum::kLiteral` in place of the member access, `.at(i)`, `.back()`,
`.at(c.size() - n)`, `common::Contains`, `common::Concat` with the conversions, `common::Some` /
`All` / `SomeRange` / `AllRange` with the lambdas. -/
theorem cpp_preserves (cfg : TCfg) (D : List (Text × List Text)) (hcfg : CfgEnum cfg D) (vs : List Text)
    (e : Expr) (x : TExpr) (hok : cppOK cfg (reserved D) e = true) (h : Cpp.transpile cfg vs e = .ok x)
    (ρ : Env) (hρ : CppEnv D ρ) :
    evalT cppSem ρ x = .off ∨ evalT cppSem ρ x = coarse (Expr.eval ρ e) :=
  TargetEmit.cpp_preserves cppSem cppSem_sound cppSem_sizeIndex cfg D hcfg e vs x hok h ρ hρ

/-- The C++ semantics used is sound. -/
theorem cpp_semantics_sound : SemSound cppSem ∧ SizeIndexSound cppSem := ⟨cppSem_sound, cppSem_sizeIndex⟩

/-- **C09 at expression level, C++.** -/
theorem cpp_agrees_with_python_sdk (cfg : TCfg) (D : List (Text × List Text)) (hcfg : CfgEnum cfg D)
    (pcfg : PyEmit.Cfg) (e : Expr) (x : TExpr) (px : PyEmit.PyExpr)
    (hok : cppOK cfg (reserved D) e = true) (hfloat : PyEmit.noNan e = true)
    (h : Cpp.transpile cfg [] e = .ok x) (hp : PyEmit.transpile pcfg [] e = .ok px)
    (ρ : Env) (hρ : CppEnv D ρ) :
    evalT cppSem ρ x = .off ∨ evalT cppSem ρ x = coarse (PyEmit.PyExpr.eval ρ px) := by
  rw [PyEmit.preserves pcfg e [] px hfloat hp ρ]
  exact cpp_preserves cfg D hcfg [] e x hok h ρ hρ

/-- Outside the domain: a negative number next to a `size_t` (`-1 >= v.size()` is true in C++),
the de-reference of an empty optional and `back()` of an empty vector (undefined behaviour). -/
theorem cpp_excluded_regions (f : FloatOps) :
    cppSem.cmp f .ge false false (.int (-1)) (.int 0) = none ∧
      cppSem.unwrap .cppDeref .none = none ∧ cppSem.index .cppBack (.list []) (.int (-1)) = none :=
  ⟨rfl, rfl, rfl⟩

/-- Full statement (false) without `cppOK`: for a member access on an enumeration *value*
(`self.c.G`) the C++ transpiler names the literal `types::C::kG`, Python raises. -/
def cfgE : TCfg :=
  ⟨⟨fun _ => none, fun _ _ => some .prop, fun _ => .notFunction⟩,
   fun e => match e with
     | .name _ => some ⟨.cls, false, false⟩
     | _ => some ⟨.enumOur [67], false, false⟩⟩

def envE : Env :=
  ⟨[(TargetEmit.selfName, .inst 0 [88] [([99], .enumLit [67] [82])])], fun _ => none, fun _ _ => none,
   ⟨fun _ _ _ => .otherError, fun _ _ _ => .otherError, fun _ => false, fun t => t⟩, fun _ => .otherError⟩

set_option maxRecDepth 8000 in
theorem cpp_preserves_full_fails :
    ∃ x, Cpp.transpile cfgE [] (.member (.member (.name TargetEmit.selfName) [99]) [71]) = .ok x ∧
      evalT cppSem envE x = .val (.enumLit [67] [71]) ∧
      coarse (Expr.eval envE (.member (.member (.name TargetEmit.selfName) [99]) [71])) = .raised :=
  ⟨.enumLit [67] [71], rfl, rfl, rfl⟩

end AasVerif.Props.C09
