import AasVerif.Lemmas.XsdTables
import AasVerif.Lemmas.XsdTop
import AasVerif.Lemmas.XsdReadSet
import AasVerif.Lemmas.XsdMatchBRead
import AasVerif.Props.C16
import AasVerif.Gen.Xsd
import AasVerif.Gen.Retree
/-!
# C13 — XSD is valid and never rejects valid data (pattern pipeline)

`translate` models `xsd/main.py:_translate_pattern` after the `fix:` commits of branch
`verif-c13`; `XsdRe.read`/`XsdRe.Matches` is the XSD regular-expression flavour of the W3C
recommendation (modelled, validated against `xmlschema`).
-/
namespace AasVerif.Props.C13
open AasVerif AasVerif.Retree AasVerif.XsdPattern

/-! ### C13a — the escape tables (regenerated from the source on every run) -/

/-- *table*: every escape the XSD renderer writes for a literal character is a legal XSD
escape that denotes exactly that character, and every XSD metacharacter is escaped. -/
theorem xsd_literal_table_legal : litTableOk Gen.Xsd.xsdLiteral = true := by decide

/-- *table*: the same inside character classes (`\ [ ] -` are always escaped). -/
theorem xsd_range_table_legal : rngTableOk Gen.Xsd.xsdRange = true := by decide

/-- The full statement of C13a for the renderer of *Python* patterns — which
`_translate_pattern` used before the fix — is false: its table writes `\$`, `\f` and `\v`,
which are no XSD escapes, and has no entry for `|`. -/
theorem python_literal_table_full_fails : litTableOk Gen.Retree.escLiteral = false := by decide

/-- … with the concrete witnesses: -/
theorem python_dollar_escape_illegal : XsdRe.read [92, 36] = .error .badEscape := rfl
theorem python_formfeed_escape_illegal : XsdRe.read [92, 102] = .error .badEscape := rfl
theorem backslash_x_illegal : XsdRe.read [92, 120, 52, 49] = .error .badEscape := rfl
theorem backslash_u_illegal : XsdRe.read [92, 117, 48, 48, 52, 49] = .error .badEscape := rfl
theorem nongreedy_illegal : XsdRe.read [97, 42, 63] = .error .quantWithoutAtom := rfl

/-- The textual un-escaping (still a public helper, no longer in the pipeline) turns an escaped
metacharacter into a live one: `\x2a` becomes `*`. -/
theorem undoX_makes_metacharacters_live :
    undoX Gen.Xsd.hexClassX [97, 92, 120, 50, 97, 98] = .ok [97, 42, 98] := by decide

/-! ### The patterns handed to the external intersection (former findings C13-F1 / C14-F1)

A value with two or more patterns goes through `greenery`.  The patterns were prepared by a *textual*
replacement of `\\xHH`/`\\uHHHH`/`\\UHHHHHHHH` (as `undoX` above), so `a\\x2ab` became `a*b` with a live star, and
the anchors were handed over as the characters `^` and `$`.  The repair parses the pattern, removes the anchors and
renders the tree with `_GreeneryRenderer`. -/

/-- *table*: in the tables of `_GreeneryRenderer` every character that `greenery` reads as special — outside of a
character set `\\ [ ] | ( ) . ? * + { }`, inside `\\ [ ] ^ -` (at any position) — is written as `\\c`; the only
other entries are the mnemonic escapes `\\t \\n \\v \\f \\r` of `greenery`; in particular `^` and `$` outside of a
set have no entry (`greenery` reads them verbatim and refuses `\\^`). -/
theorem greenery_tables_ok :
    grnTableOk grnMetaLit Gen.Xsd.grnLiteral = true ∧ grnTableOk grnMetaRng Gen.Xsd.grnRange = true := by decide

/-- **An encoded special character is never live** in the text handed to `greenery`: whatever way the character
was written in the pattern (`enc`: as `\\xHH`/`\\uHHHH`/`\\UHHHHHHHH`), a character that is special outside of a
character set is written as `\\c` … -/
theorem greenery_literal_never_live (code : Nat) (enc : Bool) (h : code ∈ grnMetaLit) :
    grnChr Gen.Xsd.grnLiteral ⟨code, enc⟩ = [92, code] := by
  have : ∀ m ∈ grnMetaLit, escLookup m Gen.Xsd.grnLiteral = some [92, m] := by decide
  simp only [grnChr, this code h]

/-- … and so is a character that is special inside a character set, at every position of the set. -/
theorem greenery_member_never_live (code : Nat) (enc : Bool) (h : code ∈ grnMetaRng) :
    grnChr Gen.Xsd.grnRange ⟨code, enc⟩ = [92, code] := by
  have : ∀ m ∈ grnMetaRng, escLookup m Gen.Xsd.grnRange = some [92, m] := by decide
  simp only [grnChr, this code h]

/-- The witnesses of the former findings C13-F1 / C14-F1: `^a\\x2ab$` ↦ `a\\*b` (it was `^a*b$`),
`^a\\u002bb$` ↦ `a\\+b`, `^[\\x5ea]+$` ↦ `[\\^a]+` (it was the complemented set `[^a]+`),
`^[a-z*]+$` ↦ `[a-z*]+`, `^[-a]$` ↦ `[\\-a]`. -/
theorem greenery_escaped_metacharacters_stay_literal :
    renderForGreenery Gen.Xsd.grnLiteral Gen.Xsd.grnRange [94, 97, 92, 120, 50, 97, 98, 36] = .ok [97, 92, 42, 98] ∧
    renderForGreenery Gen.Xsd.grnLiteral Gen.Xsd.grnRange [94, 97, 92, 117, 48, 48, 50, 98, 98, 36] = .ok [97, 92, 43, 98] ∧
    renderForGreenery Gen.Xsd.grnLiteral Gen.Xsd.grnRange [94, 91, 92, 120, 53, 101, 97, 93, 43, 36]
      = .ok [91, 92, 94, 97, 93, 43] ∧
    renderForGreenery Gen.Xsd.grnLiteral Gen.Xsd.grnRange [94, 91, 97, 45, 122, 42, 93, 43, 36]
      = .ok [91, 97, 45, 122, 42, 93, 43] ∧
    renderForGreenery Gen.Xsd.grnLiteral Gen.Xsd.grnRange [94, 91, 45, 97, 93, 36] = .ok [91, 92, 45, 97, 93] := by
  decide

/-- **The anchors are not handed over as characters** (second repair): `^.*$` ↦ `.*`, `^a[$]b$` ↦ `a[$]b`, and the
literal `\\$` / `\\x5e` outside of a set are written verbatim, as `greenery` reads them: `^a\\$\\x5e$` ↦ `a$^`. -/
theorem greenery_gets_no_anchors :
    renderForGreenery Gen.Xsd.grnLiteral Gen.Xsd.grnRange [94, 46, 42, 36] = .ok [46, 42] ∧
    renderForGreenery Gen.Xsd.grnLiteral Gen.Xsd.grnRange [94, 97, 91, 36, 93, 98, 36] = .ok [97, 91, 36, 93, 98] ∧
    renderForGreenery Gen.Xsd.grnLiteral Gen.Xsd.grnRange [94, 97, 92, 36, 92, 120, 53, 101, 36] = .ok [97, 36, 94] := by
  decide

theorem escAnchors_leaves_no_anchor_aux : ∀ (n : Nat) (t : Text) (inSet : Bool), t.length ≤ n →
    liveAnchor inSet (escAnchors inSet t) = false := by
  intro n
  induction n with
  | zero =>
    intro t inSet h
    cases t with
    | nil => simp [escAnchors, liveAnchor]
    | cons c r => simp at h
  | succ n ih =>
    intro t inSet hlen
    cases t with
    | nil => simp [escAnchors, liveAnchor]
    | cons c r =>
      simp only [List.length_cons] at hlen
      by_cases hc : c = 92
      · subst hc
        cases r with
        | nil => simp [escAnchors, liveAnchor]
        | cons d r' =>
          have := ih r' inSet (by simp only [List.length_cons] at hlen; omega)
          simp [escAnchors, liveAnchor, this]
      · cases inSet with
        | true =>
          have := ih r (c != 93) (by omega)
          rw [escAnchors.eq_def]
          simp only [hc, if_false, if_true]
          rw [liveAnchor.eq_def]
          simp only [hc, if_false, if_true]
          exact this
        | false =>
          by_cases h91 : c = 91
          · subst h91
            have := ih r true (by omega)
            rw [escAnchors.eq_def]
            simp only [Nat.reduceEqDiff, if_false, if_true, Bool.false_eq_true]
            rw [liveAnchor.eq_def]
            simp only [Nat.reduceEqDiff, if_false, if_true, Bool.false_eq_true]
            exact this
          · by_cases ha : c = 94 ∨ c = 36
            · have := ih r false (by omega)
              rw [escAnchors.eq_def]
              simp only [hc, h91, ha, if_false, if_true, Bool.false_eq_true]
              rw [liveAnchor.eq_def]
              simp only [if_true]
              exact this
            · have := ih r false (by omega)
              rw [escAnchors.eq_def]
              simp only [hc, h91, ha, if_false, if_true, Bool.false_eq_true]
              rw [liveAnchor.eq_def]
              simp only [hc, h91, ha, if_false, if_true, Bool.false_eq_true]
              exact this

/-- **After the intersection no `^`/`$` is read as an anchor.** The text `greenery` renders goes through
`_escape_carets_and_dollars_rendered_by_greenery` before `_translate_pattern`; in its result no `^` or `$`
outside of a character set is left without a backslash — for every text. -/
theorem escAnchors_leaves_no_anchor (t : Text) (inSet : Bool) : liveAnchor inSet (escAnchors inSet t) = false :=
  escAnchors_leaves_no_anchor_aux t.length t inSet (Nat.le_refl _)

/-- the witnesses: `a$b` ↦ `a\\$b`, `($*[^$x])*` ↦ `(\\$*[^$x])*` (the intersection of `.*` and `[^x]*` without the
anchors would be `[^x]*`; this is the shape `greenery` wrote when the anchors were characters), `a\\^[\\^$]^` is
left alone inside the escape and the set. -/
example : escAnchors false [97, 36, 98] = [97, 92, 36, 98] := by decide
example : escAnchors false [40, 36, 42, 91, 94, 36, 120, 93, 41, 42] = [40, 92, 36, 42, 91, 94, 36, 120, 93, 41, 42] := by decide
example : escAnchors false [97, 92, 94, 91, 92, 94, 36, 93, 94] = [97, 92, 94, 91, 92, 94, 36, 93, 92, 94] := by decide

/-- *skeleton*: `_render_pattern_for_greenery` is parse → remove anchors → render with the renderer for greenery. -/
theorem greenery_pipeline_shape : Gen.Xsd.greenerySteps =
    ["ensure", "parse_retree.parse", "parse_retree.render_pointer", "_AnchorRemover", "remover.visit",
     "parse_retree.render(renderer=_GREENERY_RENDERER)", "parts.append"] := by decide

/-- *skeleton*: `_translate_pattern` is parse → find non-XML characters → remove anchors → render
with the XSD renderer; in particular no textual un-escaping precedes the parser. -/
theorem pipeline_shape : Gen.Xsd.translateSteps =
    ["ensure", "parse_retree.parse", "parse_retree.render_pointer", "_NonXmlCharacterFinder", "finder.visit",
     "_AnchorRemover", "remover.visit", "parse_retree.render(renderer=_XSD_RENDERER)", "parts.append"] := by decide

/-- *table*: the character class of the un-escaping expression holds hexadecimal digits only
(it was `a-fA-f0-9`, which made `int(…, 16)` raise). -/
theorem hex_classes_are_hex :
    (List.range 256).all (fun c => (!inClass Gen.Xsd.hexClassX c || (hexVal1 c).isSome)) = true := by decide +kernel

/-- *table*: the primitive types are mapped to the five XSD built-ins the validity model knows. -/
theorem primitive_map : Gen.Xsd.primitiveMap =
    [("BOOL", "xs:boolean"), ("INT", "xs:long"), ("FLOAT", "xs:double"), ("STR", "xs:string"),
     ("BYTEARRAY", "xs:base64Binary")] := by decide

/-! ### Concrete translations (witnesses of the repaired defects) -/

/-- `^a\x2ab\$$` ↦ `a\*b$` (it was `a*b\$`) -/
example : translate Gen.Xsd.xsdLiteral Gen.Xsd.xsdRange
    [94, 97, 92, 120, 50, 97, 98, 92, 36, 36] = .ok [97, 92, 42, 98, 36] := by decide
/-- `^a*?$` ↦ `a*` -/
example : translate Gen.Xsd.xsdLiteral Gen.Xsd.xsdRange [94, 97, 42, 63, 36] = .ok [97, 42] := by decide
/-- `^[\x5ea]$` ↦ `[\^a]` (it was the complemented set `[^a]`) -/
example : translate Gen.Xsd.xsdLiteral Gen.Xsd.xsdRange
    [94, 91, 92, 120, 53, 101, 97, 93, 36] = .ok [91, 92, 94, 97, 93] := by decide
/-- `^\f$` is reported as an error -/
example : translate Gen.Xsd.xsdLiteral Gen.Xsd.xsdRange [94, 92, 102, 36] = .nonXml 12 := by decide

/-! ### C13b — the translated pattern is a legal XSD pattern and accepts at least the same texts -/

/-- *table*: the shape of the two tables the general theorem needs (every entry is `\e` with `e`
a single-character escape of XSD denoting the key; every metacharacter has an entry). -/
theorem xsd_tables_shape :
    shapeOk XsdPattern.metaLit Gen.Xsd.xsdLiteral = true ∧ shapeOk XsdPattern.metaRng Gen.Xsd.xsdRange = true := by
  decide

/-- **What is written is what an XSD processor reads.** For every pattern the front end parses
(`r`, with at least one alternative — the front end demands exactly one), if `_translate_pattern`
returns a text then that text is a regular expression of XML Schema, and it is read as the tree
`r` without its anchors, with every character written verbatim and the quantifiers greedy. No
construct of the parser's image is excluded: literals (every escape of both tables, `\x`/`\u`/`\U`
encoded characters), sets (ranges, complement, dashes and carets in every position), groups, unions,
all quantifier forms. -/
theorem translate_reads_back (p t : Text) (r : Regex) (hp : parse [.str p] = .ok r) (hne : r.uniates ≠ [])
    (ht : translate Gen.Xsd.xsdLiteral Gen.Xsd.xsdRange p = .ok t) :
    XsdRe.read t = .ok (normUnion (raUnion r)) := by
  have hin := C16.parse_outputs_inRange _ r hp
  unfold inRangeTop at hin
  simp only [Bool.and_eq_true] at hin
  unfold translate at ht
  rw [hp] at ht
  exact read_translateTree _ _ xsd_tables_shape.1 (setLemma _ xsd_tables_shape.2) r hin.1 hne t ht

/-- **C13b (pattern_superset).** The XSD pattern accepts every text without line breaks that the
meta-model pattern accepts (`FullMatch`: `re.match` of an anchored pattern on a text without a
line break). -/
theorem pattern_superset (p t : Text) (r : Regex) (hp : parse [.str p] = .ok r) (hne : r.uniates ≠ [])
    (ht : translate Gen.Xsd.xsdLiteral Gen.Xsd.xsdRange p = .ok t) :
    ∃ x, XsdRe.read t = .ok x ∧ ∀ s, NoLB s → FullMatch r s → XsdRe.Matches x s :=
  ⟨_, translate_reads_back p t r hp hne ht, fun s hn hm => sem_union r [] s [] [] [] hm hn⟩

/-- `_translate_pattern` never raises out of the parser (the values `[pattern]` always satisfy the
precondition of `Cursor`). -/
theorem translate_parser_never_raises (p : Text) (s : Site) :
    translate Gen.Xsd.xsdLiteral Gen.Xsd.xsdRange p ≠ .crashParse s := by
  intro h
  unfold translate at h
  cases hp : parse [.str p] with
  | ok r =>
    rw [hp] at h
    simp only [translateTree] at h
    split at h
    · cases h
    · split at h <;> cases h
  | err e => rw [hp] at h; cases h
  | crash s' => exact C16.parse_never_crashes [.str p] rfl s' hp

/-- non-vacuity: `^[\x5ea-c-]{2,}|b\$$` meets the hypotheses of `pattern_superset` -/
example : ∃ r t, parse [.str [94, 91, 92, 120, 53, 101, 97, 45, 99, 45, 93, 123, 50, 44, 125, 124, 98, 92, 36, 36]] = .ok r ∧
    r.uniates ≠ [] ∧
    translate Gen.Xsd.xsdLiteral Gen.Xsd.xsdRange
      [94, 91, 92, 120, 53, 101, 97, 45, 99, 45, 93, 123, 50, 44, 125, 124, 98, 92, 36, 36] = .ok t :=
  ⟨_, _, rfl, by simp [Retree.Union.uniates], rfl⟩

/-! ### The executable matcher is the semantics

`XsdRe.matchB` is what the driver answers for every `match` request of the correspondence (and what is
compared with `xmlschema` there); `XsdRe.Matches` is what the theorems above are stated in. -/

/-- **The matcher is sound, for every tree**: a text it accepts is matched in the denotational
semantics. -/
theorem matchB_sound (x : Union) (s : Text) (h : XsdRe.matchB x s = true) : XsdRe.Matches x s :=
  XsdRe.matchB_sound x s h

/-- **The matcher decides the semantics on every tree without `sym` nodes** (`^`, `$`, the Python dot):
soundness and completeness; the number of rounds of a repetition (`s.length + q.min`) is enough. -/
theorem matchB_iff_matches (x : Union) (hns : XsdRe.nsUnion x = true) (s : Text) :
    XsdRe.matchB x s = true ↔ XsdRe.Matches x s :=
  XsdRe.matchB_iff x hns s

/-- The statement for *every* tree is false: the matcher has no clause for `Value.sym`
(the Python dot here; `.` of XML Schema is read as the set `[^\n\r]`). -/
theorem matchB_complete_full_fails :
    ¬ (∀ (x : Union) (s : Text), XsdRe.Matches x s → XsdRe.matchB x s = true) := by
  intro h
  have hm : XsdRe.Matches (.mk [.mk [.mk (.sym .dot) none]]) [97] :=
    .mk _ [.mk (.sym .dot) none] [] [97] [] (List.mem_singleton.mpr rfl)
      (MTerms_single_iff.mpr (.plain _ _ _ _ (.dot 97 [] [] (by decide))))
  have := h _ _ hm
  revert this
  decide

/-- **The reader never produces such a node** — for every text, not only for translated patterns. -/
theorem read_has_no_sym (t : Text) (x : Union) (h : XsdRe.read t = .ok x) : XsdRe.nsUnion x = true :=
  XsdRe.read_ns h

/-- **What the driver computes is what the theorems speak about**: for every text `t` the reader
accepts, the executable matcher on the tree read decides `Matches` for every text `s`. -/
theorem read_matchB_decides (t : Text) (x : Union) (h : XsdRe.read t = .ok x) (s : Text) :
    XsdRe.matchB x s = true ↔ XsdRe.Matches x s :=
  XsdRe.read_matchB_iff h s

/-- … and so does every remainder set: `r` is reported after a match at the beginning of `s` iff `s`
splits into a match (in any context) and `r`. -/
theorem read_remainders_exact (t : Text) (x : Union) (h : XsdRe.read t = .ok x) (pre post s r : Text) :
    r ∈ XsdRe.remUnion x s ↔ ∃ s₁, s = s₁ ++ r ∧ MUnion x pre s₁ post :=
  XsdRe.mem_remUnion_iff x (XsdRe.read_ns h) pre post s r

/-- A tree the reader produces matches independently of the context: the implicit anchoring of
`Matches` (`pre = post = []`) is no restriction. -/
theorem read_matches_context_free (t : Text) (x : Union) (h : XsdRe.read t = .ok x) (pre s post : Text) :
    MUnion x pre s post ↔ XsdRe.Matches x s :=
  ⟨XsdRe.ns_context_free x (XsdRe.read_ns h) pre s post [] [],
   XsdRe.ns_context_free x (XsdRe.read_ns h) [] s [] pre post⟩

/-- **C13b on the executable matcher.** The matcher the driver runs accepts, for the written pattern,
every text without line breaks that the meta-model pattern accepts. -/
theorem pattern_superset_matchB (p t : Text) (r : Regex) (hp : parse [.str p] = .ok r) (hne : r.uniates ≠ [])
    (ht : translate Gen.Xsd.xsdLiteral Gen.Xsd.xsdRange p = .ok t) :
    ∃ x, XsdRe.read t = .ok x ∧ ∀ s, NoLB s → FullMatch r s → XsdRe.matchB x s = true := by
  obtain ⟨x, hx, hall⟩ := pattern_superset p t r hp hne ht
  exact ⟨x, hx, fun s hn hm => (XsdRe.read_matchB_iff hx s).mpr (hall s hn hm)⟩

/-- non-vacuity: `a[b-c]*(d|e).` is read, the tree has no `sym` node, and the matcher accepts `abcdx` -/
example : ∃ x, XsdRe.read [97, 91, 98, 45, 99, 93, 42, 40, 100, 124, 101, 41, 46] = .ok x ∧
    XsdRe.nsUnion x = true ∧ XsdRe.matchB x [97, 98, 99, 100, 120] = true :=
  ⟨_, rfl, by decide, by decide⟩

end AasVerif.Props.C13
