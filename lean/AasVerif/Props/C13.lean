import AasVerif.Lemmas.XsdTables
import AasVerif.Gen.Xsd
import AasVerif.Gen.Retree
/-!
# C13 — XSD is valid and never rejects valid data (pattern pipeline)

`translate` models `xsd/main.py:_translate_pattern` after the `fix:` commits of branch
`verif-c13`; `XsdRe.read`/`XsdRe.Matches` is the XSD regular-expression flavour of the W3C
recommendation (modelled, validated against `xmlschema`).
-/
namespace AasVerif.Props.C13
open AasVerif AasVerif.Retree AasVerif.XsdPattern

/-! ### C13a — the escape tables (regenerated from the source on every run) -/

/-- *table*: every escape the XSD renderer writes for a literal character is a legal XSD
escape that denotes exactly that character, and every XSD metacharacter is escaped. -/
theorem xsd_literal_table_legal : litTableOk Gen.Xsd.xsdLiteral = true := by decide

/-- *table*: the same inside character classes (`\ [ ] -` are always escaped). -/
theorem xsd_range_table_legal : rngTableOk Gen.Xsd.xsdRange = true := by decide

/-- The full statement of C13a for the renderer of *Python* patterns — which
`_translate_pattern` used before the fix — is false: its table writes `\$`, `\f` and `\v`,
which are no XSD escapes, and has no entry for `|`. -/
theorem python_literal_table_full_fails : litTableOk Gen.Retree.escLiteral = false := by decide

/-- … with the concrete witnesses: -/
theorem python_dollar_escape_illegal : XsdRe.read [92, 36] = .error .badEscape := rfl
theorem python_formfeed_escape_illegal : XsdRe.read [92, 102] = .error .badEscape := rfl
theorem backslash_x_illegal : XsdRe.read [92, 120, 52, 49] = .error .badEscape := rfl
theorem backslash_u_illegal : XsdRe.read [92, 117, 48, 48, 52, 49] = .error .badEscape := rfl
theorem nongreedy_illegal : XsdRe.read [97, 42, 63] = .error .quantWithoutAtom := rfl

/-- The textual un-escaping (still a public helper, no longer in the pipeline) turns an escaped
metacharacter into a live one: `\x2a` becomes `*`. -/
theorem undoX_makes_metacharacters_live :
    undoX Gen.Xsd.hexClassX [97, 92, 120, 50, 97, 98] = .ok [97, 42, 98] := by decide

/-- *skeleton*: `_translate_pattern` is parse → find non-XML characters → remove anchors → render
with the XSD renderer; in particular no textual un-escaping precedes the parser. -/
theorem pipeline_shape : Gen.Xsd.translateSteps =
    ["ensure", "parse_retree.parse", "parse_retree.render_pointer", "_NonXmlCharacterFinder", "finder.visit",
     "_AnchorRemover", "remover.visit", "parse_retree.render(renderer=_XSD_RENDERER)", "parts.append"] := by decide

/-- *table*: the character class of both un-escaping expressions holds hexadecimal digits only
(it was `a-fA-f0-9`, which made `int(…, 16)` raise). -/
theorem hex_classes_are_hex :
    (List.range 256).all (fun c => (!inClass Gen.Xsd.hexClassX c || (hexVal1 c).isSome) &&
      (!inClass Gen.Xsd.hexClassXuU c || (hexVal1 c).isSome)) = true := by decide +kernel

/-- *table*: the primitive types are mapped to the five XSD built-ins the validity model knows. -/
theorem primitive_map : Gen.Xsd.primitiveMap =
    [("BOOL", "xs:boolean"), ("INT", "xs:long"), ("FLOAT", "xs:double"), ("STR", "xs:string"),
     ("BYTEARRAY", "xs:base64Binary")] := by decide

/-! ### Concrete translations (witnesses of the repaired defects) -/

/-- `^a\x2ab\$$` ↦ `a\*b$` (it was `a*b\$`) -/
example : translate Gen.Xsd.xsdLiteral Gen.Xsd.xsdRange
    [94, 97, 92, 120, 50, 97, 98, 92, 36, 36] = .ok [97, 92, 42, 98, 36] := by decide
/-- `^a*?$` ↦ `a*` -/
example : translate Gen.Xsd.xsdLiteral Gen.Xsd.xsdRange [94, 97, 42, 63, 36] = .ok [97, 42] := by decide
/-- `^[\x5ea]$` ↦ `[\^a]` (it was the complemented set `[^a]`) -/
example : translate Gen.Xsd.xsdLiteral Gen.Xsd.xsdRange
    [94, 91, 92, 120, 53, 101, 97, 93, 36] = .ok [91, 92, 94, 97, 93] := by decide
/-- `^\f$` is reported as an error -/
example : translate Gen.Xsd.xsdLiteral Gen.Xsd.xsdRange [94, 92, 102, 36] = .nonXml 12 := by decide

end AasVerif.Props.C13
