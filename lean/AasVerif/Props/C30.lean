import AasVerif.Model.SdkConst
import AasVerif.Gen.SdkConst
import AasVerif.Lemmas.SdkConst
/-!
# C30 — generated constants and enumerations match the meta-model
-/
namespace AasVerif.Props.C30
open AasVerif AasVerif.SdkConst

/-- The source still has the skeleton the model was written against: the order and the tests of
the error branches of both resolvers, the containment tests, `return None, errors` when an error
was collected, the generator writes `constant.literals` only, the from-string map is keyed by the
literal VALUE and looked up with the unmodified text, a member line is `name = repr(value)`. -/
theorem skeleton_matches_model :
    Gen.SdkConst.primGuards = expectedPrimGuards ∧
    Gen.SdkConst.enumGuards = expectedEnumGuards ∧
    Gen.SdkConst.primMembership = expectedPrimMembership ∧
    Gen.SdkConst.enumMembership = expectedEnumMembership ∧
    Gen.SdkConst.primFinal = expectedFinal ∧
    Gen.SdkConst.enumFinal = expectedFinal ∧
    Gen.SdkConst.emittedLoops = expectedEmittedLoops ∧
    Gen.SdkConst.fromStrEntry = expectedFromStrEntry ∧
    Gen.SdkConst.fromStrLookup = expectedFromStrLookup ∧
    Gen.SdkConst.enumMemberLine = expectedEnumMemberLine := by
  decide

/-! ## Subset resolution -/

/-- `d` may be declared a subset of `c`: a set of the same kind, of the same primitive type /
enumeration, all of whose literals are contained in `c` (primitives: Python `==`; enumeration
literals: identity). -/
def SubsetOk : IConst → IConst → Prop
  | .primSet _ t lits _, .primSet _ t' lits' _ => t' = t ∧ ∀ l ∈ lits', memKey l lits = true
  | .enumSet _ e lits _, .enumSet _ e' lits' _ => e' = e ∧ ∀ l ∈ lits', l ∈ lits
  | _, _ => False

/-- The resolvers accept exactly when every declared subset exists, is of the same kind and
type, and is contained (the no-op `continue` of the inner loop does not matter: the collected
errors are returned). -/
theorem subset_accepted_iff (table : List IConst) (c : IConst) :
    (∃ r, resolveSubsets table c = .ok r) ↔
      ∀ s ∈ c.subsets, ∃ d, lookup table s = some d ∧ SubsetOk c d := by
  cases c with
  | prim n t v => simp [resolveSubsets, IConst.subsets]
  | primSet n t lits ss =>
    simp only [resolveSubsets, IConst.subsets, finish_ok, resolveLoop_errs_nil, stepPrim_errs_nil]
    constructor
    · rintro ⟨r, h, _⟩ s hs
      obtain ⟨n', lits', ss', hl, hc⟩ := h s hs
      exact ⟨_, hl, rfl, hc⟩
    · intro h
      refine ⟨_, fun s hs => ?_, rfl⟩
      obtain ⟨d, hl, hd⟩ := h s hs
      cases d with
      | prim _ _ _ => exact hd.elim
      | enumSet _ _ _ _ => exact hd.elim
      | primSet n' t' lits' ss' =>
        obtain ⟨rfl, hc⟩ := hd
        exact ⟨n', lits', ss', hl, hc⟩
  | enumSet n e lits ss =>
    simp only [resolveSubsets, IConst.subsets, finish_ok, resolveLoop_errs_nil, stepEnum_errs_nil]
    constructor
    · rintro ⟨r, h, _⟩ s hs
      obtain ⟨n', lits', ss', hl, hc⟩ := h s hs
      exact ⟨_, hl, rfl, hc⟩
    · intro h
      refine ⟨_, fun s hs => ?_, rfl⟩
      obtain ⟨d, hl, hd⟩ := h s hs
      cases d with
      | prim _ _ _ => exact hd.elim
      | primSet _ _ _ _ => exact hd.elim
      | enumSet n' e' lits' ss' =>
        obtain ⟨rfl, hc⟩ := hd
        exact ⟨n', lits', ss', hl, hc⟩

/-- An accepted resolution returns the declared subsets, in order ("All the subsets resolved"). -/
theorem resolve_ok_eq (table : List IConst) (c : IConst) (r : List Name)
    (h : resolveSubsets table c = .ok r) : r = c.subsets := by
  cases c with
  | prim n t v => simpa [resolveSubsets, IConst.subsets, eq_comm] using h
  | primSet n t lits ss =>
    simp only [resolveSubsets, finish_ok, resolveLoop_errs_nil] at h
    rw [h.2]
    exact resolveLoop_subs _ ss (fun s hs => stepPrim_appended table n t lits s (h.1 s hs))
  | enumSet n e lits ss =>
    simp only [resolveSubsets, finish_ok, resolveLoop_errs_nil] at h
    rw [h.2]
    exact resolveLoop_subs _ ss (fun s hs => stepEnum_appended table n e lits s (h.1 s hs))

/-- The two `@ensure`s of the resolvers can not fail: no `icontract.ViolationError` there. -/
theorem resolve_ensures (table : List IConst) (c : IConst) (r : List Name)
    (h : resolveSubsets table c = .ok r) : ensuresHold table c r = true := by
  have hr := resolve_ok_eq table c r h
  have hall := (subset_accepted_iff table c).mp ⟨r, h⟩
  subst hr
  simp only [ensuresHold, beq_self_eq_true, Bool.true_and, List.all_eq_true]
  intro s hs
  obtain ⟨d, hl, hd⟩ := hall s hs
  cases c with
  | prim _ _ _ => cases hs
  | primSet n t lits ss =>
    cases d with
    | prim _ _ _ => exact hd.elim
    | enumSet _ _ _ _ => exact hd.elim
    | primSet n' t' lits' ss' => simpa [hl] using hd.2
  | enumSet n e lits ss =>
    cases d with
    | prim _ _ _ => exact hd.elim
    | primSet _ _ _ _ => exact hd.elim
    | enumSet n' e' lits' ss' => simpa [hl] using hd.2

/-- Every constant of an accepted meta-model went through the second pass without an error. -/
theorem accepted_resolved (mm : MM) (table : List IConst) (h : frontEnd mm = .accepted table) :
    ∀ c ∈ table, ∃ r, resolveSubsets table c = .ok r := by
  unfold frontEnd at h
  split at h
  · contradiction
  split at h
  · contradiction
  split at h
  · contradiction
  split at h
  · contradiction
  split at h
  · contradiction
  · contradiction
  rename_i table' _
  split at h
  · contradiction
  rename_i h3
  injection h with h
  subst h
  intro c hc
  have h3' : secondPass table' = [] := by simpa using h3
  unfold secondPass at h3'
  have := List.flatMap_eq_nil_iff.mp h3' c hc
  cases hres : resolveSubsets table' c with
  | ok r => exact ⟨r, rfl⟩
  | error es =>
    rw [hres] at this
    simp only at this
    subst this
    -- an error result is never empty
    cases c with
    | prim _ _ _ => simp [resolveSubsets] at hres
    | primSet n t lits ss =>
      simp only [resolveSubsets, finish] at hres
      split at hres
      · exact nomatch hres
      · rename_i hne
        injection hres with hres
        simp [hres] at hne
    | enumSet n e lits ss =>
      simp only [resolveSubsets, finish] at hres
      split at hres
      · exact nomatch hres
      · rename_i hne
        injection hres with hres
        simp [hres] at hne

/-! ## What the generated `constants` module exposes -/

/-- A literal encoder/decoder pair: `enc` is what the generator writes for a value
(`python/common.py:string_literal`, `str(int)`, `float_literal`, …), `dec` is what CPython
evaluates that text to.  The round trip is the theorem `py_roundtrip` of C19 for strings and is
validated here by correspondence for every emitted value. -/
structure Codec where
  enc : Val → Text
  dec : Text → Option Val

def Codec.rt (cd : Codec) (v : Val) : Option Val := cd.dec (cd.enc v)

def Codec.Sound (cd : Codec) : Prop := ∀ v, cd.dec (cd.enc v) = some v

/-- Every primitive constant is exposed with exactly the written value (relative to the literal
round trip).  Note that the value decides the type: `constant_int(value=True)` is exposed as `True`. -/
theorem primitive_exact (cd : Codec) (h : cd.Sound) (enums : List EnumDecl) (n : Name) (t : Prim) (v : Val) :
    exposed cd.rt enums (.prim n t v) = .val v := by
  simp [exposed, Codec.rt, h v]

/-- Without the round trip nothing can be said: a codec which fails on one value breaks the module. -/
theorem primitive_exact_needs_roundtrip :
    ∃ (cd : Codec) (v : Val), exposed cd.rt [] (.prim [] .float v) ≠ .val v :=
  ⟨⟨fun _ => [], fun _ => none⟩, .float [105, 110, 102], by simp [exposed, Codec.rt]⟩

/-- The exposed set of an accepted constant set of primitives holds (up to Python `==`) exactly
the listed literals plus the literals of the sets it is declared a superset of — which, by the
containment check, are already among the listed ones. -/
theorem set_exact (cd : Codec) (hcd : cd.Sound) (enums : List EnumDecl) (table : List IConst)
    (n : Name) (t : Prim) (lits : List Val) (ss r : List Name)
    (h : resolveSubsets table (.primSet n t lits ss) = .ok r) :
    ∃ vs, exposed cd.rt enums (.primSet n t lits ss) = .set vs ∧
      ∀ v, memKey v vs = true ↔
        (memKey v lits = true ∨
          ∃ s ∈ ss, ∃ n' t' lits' ss', lookup table s = some (.primSet n' t' lits' ss') ∧ memKey v lits' = true) := by
  have hrt : (lits.map cd.rt) = lits.map some := List.map_congr_left (fun v _ => hcd v)
  refine ⟨pySet lits, by simp [exposed, hrt, allSome_map_some], fun v => ?_⟩
  rw [memKey_pySet]
  constructor
  · exact Or.inl
  · rintro (h1 | ⟨s, hs, n', t', lits', ss', hl, hv⟩)
    · exact h1
    · obtain ⟨d, hl', hd⟩ := (subset_accepted_iff table _).mp ⟨r, h⟩ s hs
      rw [hl] at hl'
      injection hl' with hl'
      subst hl'
      obtain ⟨w, hw, hk⟩ := (memKey_iff v lits').mp hv
      obtain ⟨u, hu, hk'⟩ := (memKey_iff w lits).mp (hd.2 w hw)
      exact (memKey_iff v lits).mpr ⟨u, hu, hk'.trans hk⟩

/-- `set_exact` for every constant set of an accepted meta-model. -/
theorem accepted_set_exact (cd : Codec) (hcd : cd.Sound) (mm : MM) (table : List IConst)
    (h : frontEnd mm = .accepted table) (n : Name) (t : Prim) (lits : List Val) (ss : List Name)
    (hc : IConst.primSet n t lits ss ∈ table) :
    ∃ vs, exposed cd.rt mm.enums (.primSet n t lits ss) = .set vs ∧
      ∀ v, memKey v vs = true ↔
        (memKey v lits = true ∨
          ∃ s ∈ ss, ∃ n' t' lits' ss', lookup table s = some (.primSet n' t' lits' ss') ∧ memKey v lits' = true) := by
  obtain ⟨r, hr⟩ := accepted_resolved mm table h _ hc
  exact set_exact cd hcd mm.enums table n t lits ss r hr

/-- The same for sets of enumeration literals, when the literal names are literals of the
enumeration with pairwise different values (so that no member is an alias). -/
theorem enum_set_exact (rt : Val → Option Val) (enums : List EnumDecl) (table : List IConst)
    (n e : Name) (lits ss r : List Name) (ed : EnumDecl) (he : findEnum enums e = some ed)
    (hv : hasDup ed.values = false) (hn : hasDup ed.names = false) (hl : ∀ l ∈ lits, l ∈ ed.names)
    (h : resolveSubsets table (.enumSet n e lits ss) = .ok r) :
    ∃ ms, exposed rt enums (.enumSet n e lits ss) = .enumSet e ms ∧
      ∀ m, m ∈ ms ↔
        (m ∈ lits ∨ ∃ s ∈ ss, ∃ n' lits' ss', lookup table s = some (.enumSet n' e lits' ss') ∧ m ∈ lits') := by
  have hmem : ∀ l ∈ lits, memberOf ed l = some l := by
    intro l hlm
    obtain ⟨p, hp, rfl⟩ := List.mem_map.mp (hl l hlm)
    unfold memberOf
    cases hf : ed.literals.find? (fun q => q.1 == p.1) with
    | none =>
      have := List.find?_eq_none.mp hf p hp
      simp at this
    | some q =>
      have hq := List.mem_of_find?_eq_some hf
      have hq1 : q.1 = p.1 := by simpa using List.find?_some hf
      have hqp : q = p := eq_of_hasDup_map_false (fun l : Name × Text => l.1) ed.literals hn q hq p hp hq1
      subst hqp
      simp [canonical_self ed hv q hq]
  have hall := allSome_map_of_forall (memberOf ed) id lits (by simpa using hmem)
  have hmemSet : ∀ (l : List Name) (m : Name), m ∈ pySetOf l ↔ m ∈ l := by
    intro l
    induction l with
    | nil => intro m; simp [pySetOf]
    | cons x rest ih =>
      intro m
      simp only [pySetOf, List.mem_cons, List.mem_filter, ih, bne_iff_ne, ne_eq]
      constructor
      · rintro (h | ⟨h, _⟩)
        · exact Or.inl h
        · exact Or.inr h
      · rintro (h | h)
        · exact Or.inl h
        · by_cases hx : m = x
          · exact Or.inl hx
          · exact Or.inr ⟨h, hx⟩
  refine ⟨pySetOf lits, by simp [exposed, he, hall], fun m => ?_⟩
  rw [hmemSet]
  constructor
  · exact Or.inl
  · rintro (h1 | ⟨s, hs, n', lits', ss', hlk, hm⟩)
    · exact h1
    · obtain ⟨d, hl', hd⟩ := (subset_accepted_iff table _).mp ⟨r, h⟩ s hs
      rw [hlk] at hl'
      injection hl' with hl'
      subst hl'
      exact hd.2 m hm

/-! ## Enumerations -/

/-- The front end does not accept an enumeration with a repeated literal name or value
(at present it raises `icontract.ViolationError` on them). -/
theorem accepted_enums_unique (mm : MM) (table : List IConst) (h : frontEnd mm = .accepted table) :
    ∀ e ∈ mm.enums, hasDup e.names = false ∧ hasDup e.values = false := by
  unfold frontEnd at h
  split at h
  · contradiction
  rename_i h1
  split at h
  · contradiction
  split at h
  · contradiction
  split at h
  · contradiction
  rename_i h4
  intro e he
  have h1' : mm.enums.all enumNamesUnique = true := by simpa using h1
  have h4' : mm.enums.all enumValuesUnique = true := by simpa using h4
  have hn := List.all_eq_true.mp h1' e he
  have hv := List.all_eq_true.mp h4' e he
  exact ⟨by simpa [enumNamesUnique] using hn, by simpa [enumValuesUnique] using hv⟩

/-- With pairwise different literal values the generated enumeration has exactly the declared
literals, in order, with the declared values. -/
theorem enum_exact (e : EnumDecl) (hv : hasDup e.values = false) : enumMembers e = e.literals :=
  enumMembersOf_eq e.literals hv

/-- Literal → text → literal is the identity, and any other text yields no literal. -/
theorem enum_roundtrip (e : EnumDecl) (hv : hasDup e.values = false) :
    (∀ l ∈ e.literals, enumFromStr e l.2 = some l.1) ∧ (∀ t, t ∉ e.values → enumFromStr e t = none) :=
  ⟨fun l hl => enumFromStr_value e hv l hl, fun t ht => enumFromStr_other e t ht⟩

/-- … and `member.value` is the declared value (names pairwise different). -/
theorem enum_to_str (e : EnumDecl) (hn : hasDup e.names = false) (l : Name × Text) (hl : l ∈ e.literals) :
    enumToStr e l.1 = some l.2 := by
  unfold enumToStr
  cases hf : e.literals.find? (fun q => q.1 == l.1) with
  | none =>
    have := List.find?_eq_none.mp hf l hl
    simp at this
  | some q =>
    have hq := List.mem_of_find?_eq_some hf
    have hq1 : q.1 = l.1 := by simpa using List.find?_some hf
    have : q = l := eq_of_hasDup_map_false (fun l : Name × Text => l.1) e.literals hn q hq l hl hq1
    simp [this]

/-- For accepted meta-models both hold without further hypotheses. -/
theorem enum_accepted (mm : MM) (table : List IConst) (h : frontEnd mm = .accepted table) :
    ∀ e ∈ mm.enums, enumMembers e = e.literals ∧
      (∀ l ∈ e.literals, enumToStr e l.1 = some l.2 ∧ enumFromStr e l.2 = some l.1) ∧
      (∀ t, t ∉ e.values → enumFromStr e t = none) := by
  intro e he
  obtain ⟨hn, hv⟩ := accepted_enums_unique mm table h e he
  exact ⟨enum_exact e hv, fun l hl => ⟨enum_to_str e hn l hl, (enum_roundtrip e hv).1 l hl⟩, (enum_roundtrip e hv).2⟩

/- The full statements (without the uniqueness of the values) are false of the faithful model:
   `theorem enum_exact_full (e) : enumMembers e = e.literals`
   `theorem enum_roundtrip_full (e) : ∀ l ∈ e.literals, enumFromStr e l.2 = some l.1`
   — Python's `enum.Enum` turns the second literal with a repeated value into an alias of the
   first, so the enumeration has fewer members and the text comes back as the first literal. -/

def dupEnum : EnumDecl := { name := [69], literals := [([65], [120]), ([66], [120])] }

theorem enum_exact_full_fails : ¬ ∀ e : EnumDecl, enumMembers e = e.literals := by
  intro h
  exact absurd (h dupEnum) (by decide)

theorem enum_roundtrip_full_fails :
    ¬ ∀ (e : EnumDecl) (l : Name × Text), l ∈ e.literals → enumFromStr e l.2 = some l.1 := by
  intro h
  exact absurd (h dupEnum ([66], [120]) (by decide)) (by decide)

/-- non-vacuity: an enumeration with several literals, values equal up to case, meets the hypotheses -/
example :
    let e : EnumDecl := { name := [69], literals := [([65], [120]), ([66], [88]), ([67], [])] }
    hasDup e.values = false ∧ hasDup e.names = false ∧ enumFromStr e [88] = some [66] ∧ enumFromStr e [120, 32] = none := by
  decide

def chainTable : List IConst :=
  [.primSet [97] .int [.bool true] [], .primSet [98] .int [.int 1, .int 2] [[97], [98]]]

/-- non-vacuity of `subset_accepted_iff` / `set_exact`: a chain with a `True`-for-`1` containment
and a self reference is accepted, a set missing a literal is not. -/
example :
    resolveSubsets chainTable (.primSet [98] .int [.int 1, .int 2] [[97], [98]]) = .ok [[97], [98]] ∧
    resolveSubsets chainTable (.primSet [97] .int [.bool true] [[98]]) = .error [.notContained [97] [98] 1] :=
  ⟨rfl, rfl⟩

end AasVerif.Props.C30
