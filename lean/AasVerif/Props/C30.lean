import AasVerif.Model.SdkConst
import AasVerif.Gen.SdkConst
/-!
# C30 — generated constants and enumerations match the meta-model
-/
namespace AasVerif.Props.C30
open AasVerif AasVerif.SdkConst

/-- The source still has the skeleton the model was written against: the order and the tests of
the error branches of both resolvers, the containment tests, `return None, errors` when an error
was collected, the generator writes `constant.literals` only, the from-string map is keyed by the
literal VALUE and looked up with the unmodified text, a member line is `name = repr(value)`. -/
theorem skeleton_matches_model :
    Gen.SdkConst.primGuards = expectedPrimGuards ∧
    Gen.SdkConst.enumGuards = expectedEnumGuards ∧
    Gen.SdkConst.primMembership = expectedPrimMembership ∧
    Gen.SdkConst.enumMembership = expectedEnumMembership ∧
    Gen.SdkConst.primFinal = expectedFinal ∧
    Gen.SdkConst.enumFinal = expectedFinal ∧
    Gen.SdkConst.emittedLoops = expectedEmittedLoops ∧
    Gen.SdkConst.fromStrEntry = expectedFromStrEntry ∧
    Gen.SdkConst.fromStrLookup = expectedFromStrLookup ∧
    Gen.SdkConst.enumMemberLine = expectedEnumMemberLine := by
  decide

end AasVerif.Props.C30
