import AasVerif.Lemmas.JsonSchemaGenerate
import AasVerif.Lemmas.JsonSchemaLeaf
import AasVerif.Lemmas.JsonSchemaLookup
import AasVerif.Lemmas.JsonSchemaChoice
import AasVerif.Lemmas.JsonSchemaSearchB
import AasVerif.Lemmas.JsonSchemaDispatch
/-!
# C11 — JSON Schema is valid and never rejects valid data

Theorems about `JsonSchema.generate` (model of `aas_core_codegen/jsonschema/main.py` after the two
`fix:` commits: byte-array bounds scaled to the base64 text, `modelType` required for a stand-alone
concrete class) and `JsonSchema.validates` (the validation semantics of the emitted subset).
The inferred constraints are an INPUT of the model (C15's subject).  Statements that mention
patterns are statements about the executable matcher `searchB` on UTF-16 units.

Whole documents (section "Whole documents through the `allOf`/`$ref` chain" below): for every concrete
class of a meta-model whose hierarchy is consistent (`hierOK`, decidable, evaluated by the driver on
every input) `{"$ref": "#/definitions/<Class>"}` accepts EXACTLY the well-formed documents (`DocOK`:
object, `modelType`, members of the class and of every ancestor at any distance against the complete
inferred constraints) — `valid_data_accepted` is the `⇐` half, `Props.C12.document_enforced` the `⇒`
half; `choice_dispatch` is the same for `_choice` definitions.

Planned, not proved (see `design.d/C11.md`): the link from the SDK's `to_jsonable` to `DocOK` (needs a
data model; member values that are themselves class instances are delegated to `Valid` of the
referenced definition, to which `generated_schema_document_iff` / `choice_dispatch` apply again).
`searchB ↔ Retree.MUnion` is proved: see the section "The regex matcher is the semantics".
-/
namespace AasVerif.Props.C11
open AasVerif AasVerif.JsonSchema AasVerif.Retree

/-! ## The schema itself -/

/-- `_PRIMITIVE_MAP` (regenerated from the source on every run) sends every primitive to the JSON
type that its JSON form has. -/
theorem primitive_map_spec :
    primType .bool = some .boolean ∧ primType .int = some .integer ∧ primType .float = some .number ∧
    primType .str = some .string ∧ primType .bytes = some .string := by decide

/-- **C11a.**  Every `$ref` in the generated definitions is the name of a generated definition —
for every meta-model whose input is closed under references (`refsClosed`, decidable; what the
intermediate layer guarantees when every class named by a property is concrete or has concrete
descendants). -/
theorem refs_resolve (mm : MM) (defs : Defs) (h : generate mm = .ok defs) (hwf : refsClosed mm = true) :
    ∀ r ∈ refsDefs defs, hasKey r defs = true :=
  generate_refs_resolve mm defs h hwf

/-- an abstract class without concrete descendants, referenced by a property (finding C11-F1) -/
def ghostMM : MM := ⟨[
  .cls ⟨ascii "Ghost", true, false, [], [⟨ascii "z", false, true, .prim .int none, []⟩], []⟩,
  .cls ⟨ascii "Holder", false, false, [],
    [⟨ascii "ghost", true, true, .cls (ascii "Ghost") false, []⟩], []⟩]⟩

/-- all references of a successful outcome resolve -/
def refsOk : JsonSchema.Res Defs → Bool
  | .ok d => (refsDefs d).all (fun r => hasKey r d)
  | _ => true

/-- The unconditional statement is FALSE of the faithful model (and of the code: the generated
`Holder.properties.ghost` is `{"$ref": "#/definitions/Ghost"}` and there is no `Ghost`). -/
theorem refs_resolve_full_fails :
    ¬ (∀ (mm : MM) (defs : Defs), generate mm = .ok defs → ∀ r ∈ refsDefs defs, hasKey r defs = true) := by
  intro h
  have hall : ∀ mm, refsOk (generate mm) = true := by
    intro mm
    cases hd : generate mm with
    | ok d => exact List.all_eq_true.mpr (fun r hr => h mm d hd r hr)
    | err => rfl
    | crash c => rfl
  have hg : refsOk (generate ghostMM) = false := by decide
  rw [hall ghostMM] at hg
  cases hg

example : refsClosed ghostMM = false := by decide

/-- non-vacuity of `refs_resolve`: an abstract root with `modelType`, a concrete class with a
concrete descendant, a holder referencing the abstract class, an enumeration -/
def sampleMM : MM := ⟨[
  .enum (ascii "Kind") [ascii "b", ascii "a"],
  .cls ⟨ascii "Root", true, true, [],
    [⟨ascii "kind", true, true, .enum (ascii "Kind"), []⟩], [ascii "Mid", ascii "Leaf"]⟩,
  .cls ⟨ascii "Mid", false, true, [⟨ascii "Root", false, true⟩],
    [⟨ascii "kind", true, false, .enum (ascii "Kind"), []⟩,
     ⟨ascii "name", false, true, .prim .str (some ⟨some ⟨some 1, some 5⟩, none⟩), []⟩], [ascii "Leaf"]⟩,
  .cls ⟨ascii "Leaf", false, true, [⟨ascii "Mid", true, true⟩],
    [⟨ascii "kind", true, false, .enum (ascii "Kind"), []⟩,
     ⟨ascii "name", false, false, .prim .str (some ⟨some ⟨some 2, some 5⟩, none⟩), [some ⟨some ⟨some 1, some 5⟩, none⟩]⟩,
     ⟨ascii "blob", true, true, .prim .bytes (some ⟨some ⟨none, some 4⟩, none⟩), []⟩], []⟩,
  .cls ⟨ascii "Holder", false, false, [],
    [⟨ascii "roots", false, true, .list (.cls (ascii "Root") true) (some ⟨some ⟨some 1, none⟩, none⟩), []⟩], []⟩]⟩

example : refsClosed sampleMM = true ∧
    (match generate sampleMM with | .ok d => (refsDefs d).length | _ => 0) = 10 := by decide

/-- **`required_exact` / shape of a concrete definition.**  For a concrete class without concrete
descendants the generator writes `allOf`(inheritance references, body) where the body's `required`
is exactly the own non-optional properties, plus `modelType` iff the class carries it and no parent
does (the second `fix:` commit), and `modelType` is pinned to the class's own model type. -/
theorem required_exact {c : Cls} {k : Text} {s : Schema} (h : concreteDefinition c = .ok (k, s))
    (hleaf : c.cdesc = []) :
    ∃ props, defineProperties c = .ok props ∧ k = c.mt ∧
      s = wrapAllOf (inheritanceRefs c ++ [.mk (bodyKws c
        (if c.withModelType then setKey modelTypeKey (modelTypeConst c.mt) props else props)
        (if c.withModelType ∧ !(c.inh.any (·.withModelType)) then requiredProps c ++ [modelTypeKey]
          else requiredProps c))]) :=
  concrete_leaf_shape h hleaf

/-! ## Validation semantics -/

/-- verdicts are stable under more fuel -/
theorem fuel_monotone (defs : Defs) {n m : Nat} (hnm : n ≤ m) (s : Schema) (j : Json) (b : Bool)
    (h : validates defs n s j = some b) : validates defs m s j = some b :=
  validates_le defs hnm s j b h

/-- accepting and rejecting exclude each other -/
theorem valid_invalid_exclusive (defs : Defs) (s : Schema) (j : Json) :
    ¬ (Valid defs s j ∧ Invalid defs s j) :=
  not_valid_and_invalid defs s j

/-- a schema accepts iff each of its keywords accepts -/
theorem valid_keywordwise (defs : Defs) (kws : List Kw) (j : Json) :
    Valid defs (.mk kws) j ↔ ∀ k ∈ kws, KwValid defs k j :=
  valid_iff_kws defs kws j

/-- **C11b — the key lemma.**  The schema `_define_type` emits for a type annotation accepts a JSON
value iff the value has the JSON shape of the annotation and satisfies the inferred constraints
attached to the annotation's nodes (`Sat`: JSON type of the primitive; length window on the code
points of a `str` and every pattern found in its UTF-16 units; length window scaled to base64 on the
text of a `bytearray`; list-size window and `Sat` of every item; the referenced definition for
enumerations and classes). -/
theorem type_lemma (defs : Defs) (τ : TA) (s : Schema) (h : defineType τ = .ok s) (j : Json) :
    Valid defs s j ↔ Sat defs τ j :=
  JsonSchema.type_lemma defs τ s h j

/-- non-vacuity: a list of length-constrained strings and a bounded byte array (patterns are
exercised by the driver: evaluating the regex parser inside the kernel is too slow for an `example`) -/
example : ∃ s, defineType (.list (.prim .str (some ⟨some ⟨some 1, some 3⟩, none⟩))
    (some ⟨some ⟨some 1, none⟩, none⟩)) = .ok s ∧
    validates [] 5 s (.arr [.str (ascii "abc"), .str (ascii "b")]) = some true ∧
    validates [] 5 s (.arr [.str (ascii "abcd")]) = some false ∧
    validates [] 5 s (.arr [.int 3]) = some false ∧
    validates [] 5 s (.arr []) = some false := by
  refine ⟨_, rfl, ?_, ?_, ?_, ?_⟩ <;> decide

example : ∃ s, defineType (.prim .bytes (some ⟨some ⟨none, some 4⟩, none⟩)) = .ok s ∧
    validates [] 5 s (.str (ascii "AAECAw==")) = some true ∧
    validates [] 5 s (.str (ascii "AAECAwQFBg==")) = some false := by
  refine ⟨_, rfl, ?_, ?_⟩ <;> decide

/-- **Byte-array bounds, as fixed.**  The bound `n ↦ 4·⌈n/3⌉` (the length of the padded base64 text
of `n` bytes) is monotone, so a byte array whose length is inside the inferred window has a base64
text whose length is inside the emitted window: valid data is not rejected. -/
theorem bytes_bound_sound (n lo hi : Int) (h1 : lo ≤ n) (h2 : n ≤ hi) :
    base64Len lo ≤ base64Len n ∧ base64Len n ≤ base64Len hi := by
  unfold base64Len
  omega

/-- …whereas the unscaled bound of the pinned tree rejected valid data: 4 bytes under `len ≤ 4`
are 8 characters. -/
theorem bytes_bound_unscaled_fails : ¬ (∀ n hi : Int, 0 ≤ n → n ≤ hi → base64Len n ≤ hi) := by
  intro h
  have := h 4 4 (by omega) (by omega)
  unfold base64Len at this
  omega

/-- **`valid_data_accepted` for a stand-alone class** (no parents, no concrete descendants, unique
JSON property names none of which is `modelType`): a JSON object that has every required member,
the class's `modelType` (if the class carries one) and member values of the right shape satisfying
the inferred constraints is accepted by the class definition.  (The converse is
`Props.C12.standalone_enforced`.) -/
theorem valid_data_accepted_standalone (defs : Defs) {c : Cls} {k : Text} {s : Schema}
    (h : concreteDefinition c = .ok (k, s)) (hleaf : c.cdesc = []) (hroot : c.inh = [])
    (hown : ∀ p ∈ c.props, p.own = true) (hnd : (c.props.map (·.name)).Nodup)
    (hnm : ∀ p ∈ c.props, p.name ≠ modelTypeKey) (j : Json) (hok : StandaloneOK defs c j) :
    Valid defs s j :=
  (standalone_iff defs h hleaf hroot hown hnd hnm j).mpr hok

/-- **`valid_data_accepted`, end to end for a stand-alone class**: in the definitions `generate mm`
writes, a well-formed document (`StandaloneOK`) validates against `{"$ref": "#/definitions/<Class>"}`
— and nothing else does. -/
theorem generated_schema_standalone_iff (mm : MM) (defs : Defs) (h : generate mm = .ok defs) {c : Cls}
    (hc : OurType.cls c ∈ mm.types) (hleaf : c.cdesc = []) (hconc : c.abstract = false)
    (hroot : c.inh = []) (hown : ∀ p ∈ c.props, p.own = true) (hnd : (c.props.map (·.name)).Nodup)
    (hnm : ∀ p ∈ c.props, p.name ≠ modelTypeKey) (j : Json) :
    Valid defs (refTo c.mt) j ↔ StandaloneOK defs c j := by
  obtain ⟨s, hs, hlk⟩ := generate_leaf_lookup mm defs h hc hleaf hconc
  rw [valid_ref_iff, hlk]
  constructor
  · rintro ⟨s', hs', hv⟩
    cases hs'
    exact (standalone_iff defs hs hleaf hroot hown hnd hnm j).mp hv
  · intro hok
    exact ⟨s, rfl, (standalone_iff defs hs hleaf hroot hown hnd hnm j).mpr hok⟩

/-- **One level of the hierarchy, exactly** (the induction step of `valid_data_accepted` and of C12's
`constraint_enforced` along the `allOf` chain): the definition of a concrete class without concrete
descendants accepts a JSON value iff every parent definition it references accepts the value and the
class body holds (`BodyOK`: an object — demanded here only for a root class —, every own required
member present, `modelType` pinned and, if no parent carries it, present, every own member value
satisfying its annotation (`Sat`), every inherited member value satisfying the tightening steps the
class adds to the top node of its annotation). -/
theorem leaf_class_iff (defs : Defs) {c : Cls} {k : Text} {s : Schema}
    (h : concreteDefinition c = .ok (k, s)) (hleaf : c.cdesc = [])
    (hnd : (c.props.map (·.name)).Nodup) (hnm : ∀ p ∈ c.props, p.name ≠ modelTypeKey) (j : Json) :
    Valid defs s j ↔ (∀ i ∈ c.inh, Valid defs (refTo i.refName) j) ∧ BodyOK defs c j :=
  concrete_leaf_iff defs h hleaf hnd hnm j

/-- **C11c — dispatch is exclusive** (at-most-one form).  Two concrete classes without concrete
descendants that carry `modelType` and have different model types never both accept an object that
has a `modelType` member: at most one alternative of a `oneOf` of such classes validates. -/
theorem choice_exclusive (defs : Defs) {a b : Cls} {ka kb : Text} {sa sb : Schema}
    (ha : concreteDefinition a = .ok (ka, sa)) (hb : concreteDefinition b = .ok (kb, sb))
    (hla : a.cdesc = []) (hlb : b.cdesc = []) (hwa : a.withModelType = true) (hwb : b.withModelType = true)
    (hne : a.mt ≠ b.mt) {kvs : List (Text × Json)} (hk : hasKey modelTypeKey kvs = true) :
    ¬ (Valid defs sa (.obj kvs) ∧ Valid defs sb (.obj kvs)) := by
  rintro ⟨hva, hvb⟩
  unfold hasKey at hk
  cases hl : lookup modelTypeKey kvs with
  | none => simp [hl] at hk
  | some v =>
    have h1 := concrete_leaf_modelType_pinned defs ha hla hwa hva v hl
    have h2 := concrete_leaf_modelType_pinned defs hb hlb hwb hvb v hl
    rw [h1] at h2
    simp only [Json.str.injEq] at h2
    exact hne h2

/-- every concrete definition that carries `modelType` (with or without concrete descendants)
definitely rejects — verdict `some false` for every fuel ≥ 3 — an object whose `modelType` member is
anything but the class's model type -/
theorem concrete_rejects_other_modelTypes (defs : Defs) {c : Cls} {k : Text} {s : Schema}
    (h : concreteDefinition c = .ok (k, s)) (hw : c.withModelType = true) : RejectsOthers defs c.mt s :=
  concrete_rejects_others defs h hw

/-- **C11c — dispatch through `oneOf` is exact.**  For a `_choice` definition over pairwise different
names whose definitions reject other model types (`concrete_rejects_other_modelTypes`), an object
carrying `modelType = X` with `X` among the alternatives is accepted by the `oneOf` iff the
alternative `X` accepts it: exactly one alternative validates, the others reject definitely. -/
theorem choice_exact (defs : Defs) (alts : List Text) (hnd : alts.Nodup)
    (hdefs : ∀ Y ∈ alts, ∃ sY, lookup Y defs = some sY ∧ RejectsOthers defs Y sY)
    {X : Text} (hX : X ∈ alts) {kvs : List (Text × Json)} (hmt : lookup modelTypeKey kvs = some (.str X)) :
    Valid defs (.mk [.oneOf (alts.map refTo)]) (.obj kvs) ↔ Valid defs (refTo X) (.obj kvs) :=
  JsonSchema.choice_exact defs alts hnd hdefs hX hmt

/-! ## The regex matcher is the semantics

`searchB` is what `validates` runs for the `pattern` keyword and what the driver answers on every
verdict of the correspondence; `Search re u` (`∃ a b c, u = a ++ b ++ c ∧ Retree.MUnion re a b c`) is
`re.search` in the denotational semantics shared with C16/C17/C18 (anchors read their context). -/

/-- **`searchB` IS the un-anchored search of the denotational semantics**, for every regex tree and
every text: `yes` iff some substring matches in its context, `no` iff none does, and the fuel it
supplies (`fuelFor`) is always enough — it never answers `out`. -/
theorem searchB_is_semantics (re : Regex) (u : Text) :
    (searchB re u = .yes ↔ Search re u) ∧ (searchB re u = .no ↔ ¬ Search re u) ∧ searchB re u ≠ .out :=
  ⟨searchB_yes_iff re u, searchB_no_iff re u, searchB_ne_out re u⟩

/-- **The `pattern` keyword never runs out of fuel**: on a string it answers `some true` or
`some false`, and `some true` exactly when the semantics finds a match in the UTF-16 units. -/
theorem pattern_keyword_decided (defs : Defs) (r : Schema → Json → Option Bool) (re : Regex) (t : Text) :
    (validKw defs r (.pattern re) (.str t) = some true ↔ Search re (Fix16.utf16 t)) ∧
    (validKw defs r (.pattern re) (.str t) = some false ↔ ¬ Search re (Fix16.utf16 t)) := by
  have h := searchB_is_semantics re (Fix16.utf16 t)
  simp only [validKw]
  cases hs : searchB re (Fix16.utf16 t) <;> simp_all [R.toO]

/-- the `pattern` keyword, in the semantics -/
theorem pattern_keyword_iff (defs : Defs) (re : Regex) (j : Json) :
    KwValid defs (.pattern re) j ↔ ∀ t, j = .str t → Search re (Fix16.utf16 t) := by
  rw [kwv_pattern]
  simp only [searchB_yes_iff]

/-- "every inferred pattern is found", in the semantics -/
theorem patsOK_iff (pats : Option (List Text)) (t : Text) :
    PatsOK pats t ↔
      ∀ ps, pats = some ps → ∀ p ∈ ps, ∃ re, fixPattern p = .ok re ∧ Search re (Fix16.utf16 t) := by
  simp only [PatsOK, searchB_yes_iff]

/-- **C11b for strings, in the semantics.** The schema emitted for a constrained string accepts the
JSON string `t` iff the length of `t` is within the inferred bounds and every inferred pattern — parsed
after the rewriting for UTF-16 engines — has a match somewhere in the UTF-16 units of `t`, in the
denotational semantics of the regex tree. -/
theorem string_accepted_iff (defs : Defs) (cs : Cons) (s : Schema) (t : Text)
    (h : defineType (.prim .str (some cs)) = .ok s) :
    Valid defs s (.str t) ↔
      LenIn cs.len id t.length ∧
      ∀ ps, cs.pats = some ps → ∀ p ∈ ps, ∃ re, fixPattern p = .ok re ∧ Search re (Fix16.utf16 t) := by
  rw [type_lemma defs _ s h, ← patsOK_iff]
  constructor
  · rintro ⟨_, hc⟩
    exact (hc cs rfl t rfl).1 rfl
  · intro hc
    refine ⟨⟨.string, by decide, rfl⟩, ?_⟩
    intro c hcs t' ht'
    injection hcs with hcs
    injection ht' with ht'
    subst hcs; subst ht'
    exact ⟨fun _ => hc, fun hb => by cases hb⟩

/-- non-vacuity (and the matcher at work): `^a+$` is found in `aa`, not in `ab`; `b` is found in `ab` -/
example : Search (.mk [.mk [.mk (.sym .start) none, .mk (.char ⟨97, false⟩) (some ⟨false, 1, none⟩),
      .mk (.sym .stop) none]]) [97, 97] ∧
    ¬ Search (.mk [.mk [.mk (.sym .start) none, .mk (.char ⟨97, false⟩) (some ⟨false, 1, none⟩),
      .mk (.sym .stop) none]]) [97, 98] ∧
    Search (.mk [.mk [.mk (.char ⟨98, false⟩) none]]) [97, 98] := by
  refine ⟨?_, ?_, ?_⟩
  · rw [← searchB_yes_iff]; decide
  · rw [← searchB_no_iff]; decide
  · rw [← searchB_yes_iff]; decide

/-! ## Whole documents through the `allOf`/`$ref` chain -/

/-- **One level, inheritable definition, exactly**: the definition of an abstract class — or the
`_abstract` twin of a concrete class with concrete descendants — accepts a JSON value iff every parent
definition it references accepts it and the class body holds (`InhBodyOK`: as `BodyOK`, but `modelType`
is demanded — present and a model type — exactly where the class is the top-most carrier). -/
theorem inheritable_class_iff (defs : Defs) {c : Cls} {k : Text} {s : Schema}
    (h : inheritableDefinition c = .ok (k, s)) (hnd : (c.props.map (·.name)).Nodup)
    (hnm : ∀ p ∈ c.props, p.name ≠ modelTypeKey) (j : Json) :
    Valid defs s j ↔ (∀ i ∈ c.inh, Valid defs (refTo i.refName) j) ∧ InhBodyOK defs c j :=
  inheritable_iff defs h hnd hnm j

/-- **A concrete class WITH concrete descendants**: its definition is
`allOf[X_abstract, {properties: {modelType: {const: X}}}]` (the class must carry the model type); it
accepts iff `X_abstract` accepts and `modelType`, if present, is pinned. -/
theorem concrete_with_descendants_iff (defs : Defs) {c : Cls} {k : Text} {s : Schema}
    (h : concreteDefinition c = .ok (k, s)) (hdesc : c.cdesc ≠ []) (j : Json) :
    k = c.mt ∧ c.withModelType = true ∧
    (Valid defs s j ↔ Valid defs (refTo (sfx c.mt "_abstract")) j ∧
      ∀ kvs, j = .obj kvs → ∀ v, lookup modelTypeKey kvs = some v → v = .str c.mt) :=
  concrete_desc_iff defs h hdesc j

/-- **The tightening steps never reject valid data**: whatever `_define_properties` emits for an
inherited property (the steps common to all constraining parents) demands no more than the complete
constraints inferred for the class — for any number of parents. -/
theorem tightening_never_rejects {full T : Cons} {parents : List (Option Cons)}
    (h : tightenAll full parents = .ok T) (sh : Shape) (j : Json) (hf : TransSpec sh full j) :
    TransSpec sh T j :=
  tightenAll_weaker h sh j hf

/-- **The induction over the ancestor paths** (shared by C11 and C12).  In the definitions `generate mm`
writes, for a class with concrete descendants in a consistent hierarchy: a JSON value validates against
the class's inheritable definition iff it is an object whose members meet the complete inferred
constraints of the class and of EACH of its ancestors (`ancestors`: every path of `inheritances`, any
length), `modelType` being present and a model type where the top-most carrier demands it. -/
theorem ancestor_chain_iff (mm : MM) (defs : Defs) (h : generate mm = .ok defs) (hwf : hierOK mm = true)
    {a : Cls} (ha : OurType.cls a ∈ mm.types) (hdesc : a.cdesc ≠ []) (j : Json) :
    Valid defs (refTo (inhKey a)) j ↔ ChainOK defs mm.types mm.types.length a j :=
  chain_iff defs (generate_defsFor mm defs h) _ a ha hdesc ((hierOK_spec hwf).1 a ha (Or.inr hdesc)) j

/-- **Whole documents, exactly.**  For every concrete class `c` of the meta-model — with or without
parents, with or without concrete descendants — `{"$ref": "#/definitions/<c>"}` in the generated
definitions accepts a JSON value iff it is a well-formed document of `c` (`DocOK`). -/
theorem generated_schema_document_iff (mm : MM) (defs : Defs) (h : generate mm = .ok defs)
    (hwf : hierOK mm = true) {c : Cls} (hc : OurType.cls c ∈ mm.types) (hconc : c.abstract = false)
    (j : Json) : Valid defs (refTo c.mt) j ↔ DocOK mm defs c j :=
  document_iff mm defs h hwf hc hconc j

/-- **`valid_data_accepted`.**  A JSON object that carries the class's `modelType` (if the class has
one), has the own required members of the class and of every ancestor, and whose member values meet
the annotation where the property is declared and the complete merged constraint of the top node in
every class that inherits it, validates against the generated schema of its class — whatever the
length of the `allOf`/`$ref` chain, also for a class with concrete descendants. -/
theorem valid_data_accepted (mm : MM) (defs : Defs) (h : generate mm = .ok defs) (hwf : hierOK mm = true)
    {c : Cls} (hc : OurType.cls c ∈ mm.types) (hconc : c.abstract = false) (j : Json)
    (hok : DocOK mm defs c j) : Valid defs (refTo c.mt) j :=
  (document_iff mm defs h hwf hc hconc j).mpr hok

/-- **C11c end to end — dispatch through `_choice`, exactly**: where a property is typed with a class
that has concrete descendants the schema references `<Class>_choice`; that definition accepts a JSON
value iff it is a well-formed document of one of the alternatives (the class itself unless abstract, or
a concrete descendant) — in particular a valid document of a descendant is never rejected by the
`oneOf` (exactly one alternative validates). -/
theorem choice_dispatch (mm : MM) (defs : Defs) (h : generate mm = .ok defs) (hwf : hierOK mm = true)
    {c : Cls} (hc : OurType.cls c ∈ mm.types) (hdesc : c.cdesc ≠ [])
    (hch : choiceOK mm.types c = true) (hhas : hasChoice (classesInProperties mm) c = true) (j : Json) :
    Valid defs (refTo (sfx c.mt "_choice")) j ↔
      ∃ d, OurType.cls d ∈ mm.types ∧ d.abstract = false ∧ d.withModelType = true ∧
        d.mt ∈ choiceAlts c ∧ DocOK mm defs d j :=
  choice_iff mm defs h hwf hc hdesc hch hhas j

/-! ### Member values that are class instances

`Sat` delegates a class-typed member to the referenced definition; the whole-document theorems apply to it
again, so nested documents unfold level by level. -/

/-- a member typed with a concrete class without concrete descendants (`{"$ref": "#/definitions/<d>"}`)
meets its annotation iff it is a well-formed document of that class -/
theorem class_member_iff (mm : MM) (defs : Defs) (h : generate mm = .ok defs) (hwf : hierOK mm = true)
    {mt : Text} {d : Cls} (hf : findCls mm.types mt = some d) (hconc : d.abstract = false) (j : Json) :
    Sat defs (.cls mt false) j ↔ DocOK mm defs d j := by
  obtain ⟨hd, hmt⟩ := findCls_some hf
  have := document_iff mm defs h hwf hd hconc j
  rw [hmt] at this
  simpa [Sat] using this

/-- a member typed with a class that has concrete descendants (`{"$ref": "#/definitions/<d>_choice"}`)
meets its annotation iff it is a well-formed document of one of the alternatives -/
theorem choice_member_iff (mm : MM) (defs : Defs) (h : generate mm = .ok defs) (hwf : hierOK mm = true)
    {mt : Text} {d : Cls} (hf : findCls mm.types mt = some d) (hdesc : d.cdesc ≠ [])
    (hch : choiceOK mm.types d = true) (hhas : hasChoice (classesInProperties mm) d = true) (j : Json) :
    Sat defs (.cls mt true) j ↔
      ∃ d', OurType.cls d' ∈ mm.types ∧ d'.abstract = false ∧ d'.withModelType = true ∧
        d'.mt ∈ choiceAlts d ∧ DocOK mm defs d' j := by
  obtain ⟨hd, hmt⟩ := findCls_some hf
  have := choice_iff mm defs h hwf hd hdesc hch hhas j
  rw [hmt] at this
  simpa [Sat] using this

/-! ### Non-vacuity: a chain of three classes -/

/-- `sampleMM` with the `parents` entries the wire form records for inherited properties -/
def rootK : Cls := ⟨ascii "Root", true, true, [],
  [⟨ascii "kind", true, true, .enum (ascii "Kind"), []⟩,
   ⟨ascii "name", false, true, .prim .str (some ⟨some ⟨none, some 5⟩, none⟩), []⟩], [ascii "Mid", ascii "Leaf"]⟩
def midK : Cls := ⟨ascii "Mid", false, true, [⟨ascii "Root", false, true⟩],
  [⟨ascii "kind", true, false, .enum (ascii "Kind"), [none]⟩,
   ⟨ascii "name", false, false, .prim .str (some ⟨some ⟨some 1, some 5⟩, none⟩), [some ⟨some ⟨none, some 5⟩, none⟩]⟩],
  [ascii "Leaf"]⟩
def leafK : Cls := ⟨ascii "Leaf", false, true, [⟨ascii "Mid", true, true⟩],
  [⟨ascii "kind", true, false, .enum (ascii "Kind"), [none]⟩,
   ⟨ascii "name", false, false, .prim .str (some ⟨some ⟨some 2, some 5⟩, none⟩), [some ⟨some ⟨some 1, some 5⟩, none⟩]⟩,
   ⟨ascii "blob", true, true, .prim .bytes (some ⟨some ⟨none, some 4⟩, none⟩), []⟩], []⟩
def holderK : Cls := ⟨ascii "Holder", false, false, [],
  [⟨ascii "roots", false, true, .list (.cls (ascii "Root") true) (some ⟨some ⟨some 1, none⟩, none⟩), []⟩], []⟩
def chainMM : MM := ⟨[.enum (ascii "Kind") [ascii "b", ascii "a"], .cls rootK, .cls midK, .cls leafK, .cls holderK]⟩
def chainDefs : Defs := match generate chainMM with | .ok d => d | _ => []

/-- the hypotheses of the whole-document theorems hold for the three-level chain … -/
example : hierOK chainMM = true ∧ choicesOK chainMM = true ∧ refsClosed chainMM = true ∧
    generate chainMM = .ok chainDefs ∧
    hasChoice (classesInProperties chainMM) rootK = true ∧ choiceOK chainMM.types rootK = true := by
  refine ⟨by decide, by decide, by decide, ?_, by decide, by decide⟩
  have hok : (match generate chainMM with | .ok _ => true | _ => false) = true := by decide
  unfold chainDefs
  cases h : generate chainMM with
  | ok d => rfl
  | err => rw [h] at hok; cases hok
  | crash c => rw [h] at hok; cases hok

/-- … `Holder.roots` names a class that `findCls` resolves (hypothesis of `choice_member_iff`) … -/
example : (findCls chainMM.types (ascii "Root")).map (·.mt) = some (ascii "Root") ∧
    (findCls chainMM.types (ascii "Leaf")).map (·.abstract) = some false := by decide

/-- … whose leaf has the ancestors `Mid` (concrete, with descendants: `Mid_abstract`) and `Root` (two
steps up) … -/
example : (ancestorsOf chainMM leafK).map (·.mt) = [ascii "Mid", ascii "Root"] ∧
    (ancestorsOf chainMM midK).map (·.mt) = [ascii "Root"] := by decide

/-- … and documents of `Leaf`, of `Mid` (a class with concrete descendants) and a `Holder` with a list
dispatched through `Root_choice` validate as the theorems say. -/
example :
    validates chainDefs 20 (refTo (ascii "Leaf")) (.obj [(ascii "name", .str (ascii "abc")),
      (modelTypeKey, .str (ascii "Leaf"))]) = some true ∧
    validates chainDefs 20 (refTo (ascii "Mid")) (.obj [(ascii "name", .str (ascii "a")),
      (modelTypeKey, .str (ascii "Mid"))]) = some true ∧
    validates chainDefs 20 (refTo (ascii "Holder")) (.obj [(ascii "roots", .arr [
      .obj [(ascii "name", .str (ascii "abc")), (modelTypeKey, .str (ascii "Leaf"))],
      .obj [(ascii "name", .str (ascii "a")), (modelTypeKey, .str (ascii "Mid"))]])]) = some true := by
  refine ⟨by decide, by decide, by decide⟩

end AasVerif.Props.C11
