import AasVerif.Model.JsonSchemaGen
namespace AasVerif.Props.C11
open AasVerif AasVerif.JsonSchema

theorem placeholder : allO [] = some true := rfl

end AasVerif.Props.C11
