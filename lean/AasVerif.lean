-- This module serves as the root of the `AasVerif` library.
-- Import modules here that should be built as part of the library.
import AasVerif.Basic
